"""Reference primitives, independent of the code under test.

They only ever fill oracle tables (input/output pairs of standard primitives);
which entry is used, and how results are spliced, is decided by the TLA+
specification.  Hashes come from hashlib/OpenSSL, PBKDF2 is an explicit loop,
secp256k1 is a small affine implementation with the SEC2 constants typed in
here and self-tested at import against published values."""
import hashlib
import hmac as _hmac
import unicodedata

# --------------------------------------------------------------------- hashes
_real_hmac_new = _hmac.new          # captured before any recorder patches hmac
_real_sha256 = hashlib.sha256
_real_sha512 = hashlib.sha512
_real_new = hashlib.new


def sha256(b):
    return _real_sha256(bytes(b)).digest()


def hash256(b):
    return sha256(sha256(b))


def ripemd160(b):
    return _real_new("ripemd160", bytes(b)).digest()


def hash160(b):
    return ripemd160(sha256(b))


def sha512(b):
    return _real_sha512(bytes(b)).digest()


def hmac512(key, msg):
    """HMAC-SHA512 written out (RFC 2104), on top of hashlib.sha512 only."""
    key = bytes(key)
    msg = bytes(msg)
    if len(key) > 128:
        key = sha512(key)
    key = key + b"\x00" * (128 - len(key))
    ipad = bytes(k ^ 0x36 for k in key)
    opad = bytes(k ^ 0x5c for k in key)
    return sha512(opad + sha512(ipad + msg))


def pbkdf2_sha512(password, salt, rounds, dklen):
    """PBKDF2 (RFC 8018) as an explicit loop over hmac512."""
    out = b""
    blk = 1
    while len(out) < dklen:
        u = hmac512(password, bytes(salt) + blk.to_bytes(4, "big"))
        t = int.from_bytes(u, "big")
        for _ in range(rounds - 1):
            u = hmac512(password, u)
            t ^= int.from_bytes(u, "big")
        out += t.to_bytes(64, "big")
        blk += 1
    return out[:dklen]


def pbkdf2_fast(password, salt, rounds, dklen):
    """Same function through OpenSSL (used for bulk tables after the explicit
    loop has been cross-checked against it on the first entries of a run)."""
    return hashlib.pbkdf2_hmac("sha512", bytes(password), bytes(salt), rounds, dklen)


def nfkd(s):
    return unicodedata.normalize("NFKD", s)


def utf8(s):
    """UTF-8 by hand (surrogates are not expected)."""
    out = bytearray()
    for ch in s:
        c = ord(ch)
        if c < 0x80:
            out.append(c)
        elif c < 0x800:
            out += bytes([0xc0 | (c >> 6), 0x80 | (c & 0x3f)])
        elif c < 0x10000:
            out += bytes([0xe0 | (c >> 12), 0x80 | ((c >> 6) & 0x3f), 0x80 | (c & 0x3f)])
        else:
            out += bytes([0xf0 | (c >> 18), 0x80 | ((c >> 12) & 0x3f),
                          0x80 | ((c >> 6) & 0x3f), 0x80 | (c & 0x3f)])
    return bytes(out)


# ------------------------------------------------------------------ secp256k1
P = 0xFFFFFFFFFFFFFFFFFFFFFFFFFFFFFFFFFFFFFFFFFFFFFFFFFFFFFFFEFFFFFC2F
N = 0xFFFFFFFFFFFFFFFFFFFFFFFFFFFFFFFEBAAEDCE6AF48A03BBFD25E8CD0364141
GX = 0x79BE667EF9DCBBAC55A06295CE870B07029BFCDB2DCE28D959F2815B16F81798
GY = 0x483ADA7726A3C4655DA4FBFC0E1108A8FD17B448A68554199C47D08FFB10D4B8
G = (GX, GY)
INF = None


def _inv(a):
    return pow(a, P - 2, P)


def pt_add(a, b):
    if a is None:
        return b
    if b is None:
        return a
    x1, y1 = a
    x2, y2 = b
    if x1 == x2:
        if (y1 + y2) % P == 0:
            return None
        lam = (3 * x1 * x1) * _inv(2 * y1) % P
    else:
        lam = (y2 - y1) * _inv(x2 - x1) % P
    x3 = (lam * lam - x1 - x2) % P
    y3 = (lam * (x1 - x3) - y1) % P
    return (x3, y3)


def pt_mul(k, pt=G):
    k %= N
    acc = None
    add = pt
    while k:
        if k & 1:
            acc = pt_add(acc, add)
        add = pt_add(add, add)
        k >>= 1
    return acc


def pt_neg(a):
    return None if a is None else (a[0], (-a[1]) % P)


def on_curve(pt):
    x, y = pt
    return 0 <= x < P and 0 <= y < P and (y * y - x * x * x - 7) % P == 0


def sec(pt, compressed=True):
    x, y = pt
    if compressed:
        return bytes([2 + (y & 1)]) + x.to_bytes(32, "big")
    return b"\x04" + x.to_bytes(32, "big") + y.to_bytes(32, "big")


def lift_x(x, odd):
    if not 0 <= x < P:
        return None
    y2 = (pow(x, 3, P) + 7) % P
    y = pow(y2, (P + 1) // 4, P)
    if y * y % P != y2:
        return None
    if (y & 1) != odd:
        y = P - y
    return (x, y)


def parse_sec(b):
    """-> point or None for anything that is not a standard compressed or
    uncompressed encoding of a curve point."""
    b = bytes(b)
    if len(b) == 33 and b[0] in (2, 3):
        return lift_x(int.from_bytes(b[1:], "big"), b[0] & 1)
    if len(b) == 65 and b[0] == 4:
        pt = (int.from_bytes(b[1:33], "big"), int.from_bytes(b[33:], "big"))
        return pt if on_curve(pt) else None
    return None


def pubkey(k, compressed=True):
    return sec(pt_mul(k), compressed)


def _selftest():
    assert on_curve(G)
    assert pt_mul(N) is None and pt_mul(N - 1) == pt_neg(G)
    two_g = pt_mul(2)
    assert two_g[0] == 0xC6047F9441ED7D6D3045406E95C07CD85C778E4B8CEF3CA7ABAC09B95C709EE5
    assert two_g[1] == 0x1AE168FEA63DC339A3C58419466CEAEEF7F632653266D0E1236431A950CFE52A
    three_g = pt_mul(3)
    assert three_g[0] == 0xF9308A019258C31049344F85F89D5229B531C845836F99B08601F113BCE036F9
    assert pt_add(two_g, G) == three_g
    # BIP32 test vector 1 master: k -> K
    k = 0xe8f32e723decf4051aefac8e2c93c9c5b214313817cdb01a1494b917c8436b35
    assert pubkey(k).hex() == "0339a36013301597daef41fbe593a02cc513d0b55527ec2df1050e2e8ff49c85c2"
    # RFC 4231 test case 2 for HMAC-SHA512
    assert hmac512(b"Jefe", b"what do ya want for nothing?").hex().startswith("164b7a7bfcf819e2e395fbe73b56e0a3")
    assert hmac512(b"k" * 200, b"m") == _real_hmac_new(b"k" * 200, b"m", hashlib.sha512).digest()
    assert pbkdf2_sha512(b"password", b"salt", 3, 70) == hashlib.pbkdf2_hmac("sha512", b"password", b"salt", 3, 70)
    assert ripemd160(b"abc").hex() == "8eb208f7e05d987a9b044a8e98c6b087f15a0bfc"
    assert utf8("aé€\U0001f600") == "aé€\U0001f600".encode("utf-8")


_selftest()

# ------------------------------------------------------------------- base58
B58 = "123456789ABCDEFGHJKLMNPQRSTUVWXYZabcdefghijkmnopqrstuvwxyz"


def b58enc(b):
    b = bytes(b)
    z = len(b) - len(b.lstrip(b"\x00"))
    n = int.from_bytes(b, "big")
    s = ""
    while n:
        n, r = divmod(n, 58)
        s = B58[r] + s
    return "1" * z + s


def b58dec(s):
    """None if a character is outside the alphabet."""
    n = 0
    for ch in s:
        i = B58.find(ch)
        if i < 0 or ch == "":
            return None
        n = n * 58 + i
    z = len(s) - len(s.lstrip("1"))
    body = n.to_bytes((n.bit_length() + 7) // 8, "big") if n else b""
    return b"\x00" * z + body


def b58check_enc(b):
    return b58enc(bytes(b) + hash256(b)[:4])


def b58check_body(s):
    """Body the spec's decoder will want the hash of (or None)."""
    raw = b58dec(s) if s else None
    if raw is None or len(raw) < 4:
        return None
    return raw[:-4]


# -------------------------------------------------------------- oracle tables
class Table:
    """Collects [f, i, o] entries for one event (de-duplicated)."""

    def __init__(self):
        self.rows = []
        self.seen = set()

    def _add(self, f, i, o, key):
        if (f, key) not in self.seen:
            self.seen.add((f, key))
            self.rows.append({"f": f, "i": i, "o": o})

    def sha256(self, x):
        x = bytes(x)
        r = sha256(x)
        self._add("sha256", list(x), list(r), x)
        return r

    def hash256(self, x):
        x = bytes(x)
        r = hash256(x)
        self._add("hash256", list(x), list(r), x)
        return r

    def ripemd160(self, x):
        x = bytes(x)
        r = ripemd160(x)
        self._add("ripemd160", list(x), list(r), x)
        return r

    def hash160(self, x):
        return self.ripemd160(self.sha256(x))

    def hmac512(self, key, msg):
        key, msg = bytes(key), bytes(msg)
        r = hmac512(key, msg)
        self._add("hmac512", [list(key), list(msg)], list(r), (key, msg))
        return r

    def ptc(self, k32):
        k32 = bytes(k32)
        k = int.from_bytes(k32, "big")
        r = pubkey(k, True) if 0 < k < N else b""
        self._add("ptc", list(k32), list(r), k32)
        return r

    def ptu(self, k32):
        k32 = bytes(k32)
        k = int.from_bytes(k32, "big")
        r = pubkey(k, False) if 0 < k < N else b""
        self._add("ptu", list(k32), list(r), k32)
        return r

    def ptadd(self, p33, q33):
        p33, q33 = bytes(p33), bytes(q33)
        a, b = parse_sec(p33), parse_sec(q33)
        s = pt_add(a, b) if a is not None and b is not None else None
        r = sec(s) if s is not None else b""
        self._add("ptadd", [list(p33), list(q33)], list(r), (p33, q33))
        return r

    def uncompress(self, p33):
        p33 = bytes(p33)
        pt = parse_sec(p33)
        r = sec(pt, False) if pt is not None else b""
        self._add("uncompress", list(p33), list(r), p33)
        return r

    def secnorm(self, s):
        s = bytes(s)
        pt = parse_sec(s)
        r = sec(pt) if pt is not None else b""
        self._add("secnorm", list(s), list(r), s)
        return r

    def pbkdf2(self, pw, salt, rounds=2048, dklen=64, fast=True):
        pw, salt = bytes(pw), bytes(salt)
        r = pbkdf2_fast(pw, salt, rounds, dklen) if fast else pbkdf2_sha512(pw, salt, rounds, dklen)
        self._add("pbkdf2", [list(pw), list(salt), rounds, dklen], list(r), (pw, salt, rounds, dklen))
        return r

    def nfkd(self, s):
        r = nfkd(s)
        self._add("nfkd", [ord(c) for c in s], [ord(c) for c in r], s)
        return r
