"""C06 - paper-wallet records are mutually consistent and follow BIP44/49/84."""
from .. import core
from ..core import B, T

MODULE = "Trace_Keys"
MNEMONICS = ["abandon abandon abandon abandon abandon abandon abandon abandon abandon abandon abandon about",
             "legal winner thank year wave sausage worth useful legal winner thank yellow",
             "letter advice cage absurd amount doctor acoustic avoid letter advice cage above"]


def gen_inputs(ctx):
    rng, q = ctx.rng, ctx.quick
    out = []
    accounts = [0, 1, 2 ** 31 - 2, 2 ** 31 - 1] + [rng.randrange(2 ** 31)]
    special = [44, 49, 84, 83696968]           # accounts that look like another path level
    intervals = [(0, 0), (0, 1), (5, 5), (7, 8), (2 ** 31 - 2, 2 ** 31), (5, 3)] + \
                [(a, a + 3) for a in (rng.randrange(2 ** 31 - 4),)] + [(0, 4)]
    # intervals that cross a power of two / of ten with start > 0 (row ORDER corners: container iteration
    # order, textual sorting of the index) and one long interval
    bounds = [8, 10, 16, 32, 64, 100, 128, 256, 1000, 1024, 4096, 10000, 65536, 2 ** 24, 2 ** 30]
    crossing = [(b - 2, b + 2) for b in bounds] + [(6, 10), (28, 36), (3, 19)]
    if q:
        crossing = [(6, 10), (28, 36), (98, 102)] + [rng.choice(crossing)]
    assert all(0 <= en - st <= 32 for st, en in crossing + [iv for iv in intervals if iv[1] >= iv[0]]), "row cap of the trace specification"
    n = 0
    for net in ("main", "test"):
        for k in range(4 if q else 30):
            if k < 3:
                src = {"mnemonic": T(MNEMONICS[k]), "password": T(["", " padded pass \t", "pässwörd"][k])}
            elif k == 3 or (k == 5 and not q):
                # text that looks like the structure of the rendering itself (brackets with blanks inside, quotes,
                # backslashes, line breaks): the JSON text must still parse back to exactly these strings
                src = {"mnemonic": T(MNEMONICS[0] if k == 3 else "[ legal ]  winner { thank } year"),
                       "password": T('[ a ] { "k" : [ 1 , 2 ] } \\ "q" ,\n\t: [\n    x\n]')}
            else:
                src = {"seed": B(bytes(rng.randrange(256) for _ in range(rng.choice([16, 32, 64])))), "mnemonic": T(""), "password": T("")}
            combos = [(rng.choice(accounts), rng.choice(intervals)) for _ in range(3 if q else 4)]
            if k == 0:
                combos = [(a, i) for a, i in zip(accounts, intervals)] + [(0, iv) for iv in intervals[len(accounts):]]
                if q:
                    combos = combos[:5] + [(0, (5, 3)), (2 ** 31 - 1, (2 ** 31 - 2, 2 ** 31))]
            if k in (0, 3):
                combos += [(a, (0, 1)) for a in (special if (k == 0 or not q) else special[:0])]
            if k == 1 or (not q and k == 4):
                combos += [(rng.choice([0, 1, 66]), iv) for iv in (crossing if net == "main" or not q else crossing[:2])]
            for acct, (st, en) in combos:
                inp = dict(src, net=net, account=acct, start=B(st.to_bytes(5, 'big')), end=B(en.to_bytes(5, 'big')), json=([True, 4, 2, 1][n % 4] if ("mnemonic" in src and len(src["mnemonic"]) > 0 and n % 2 == 0) else False))
                n += 1
                out.append(("Generate", inp, ("generate", net, acct in (0, 2 ** 31 - 1), max(0, en - st), st > en, "seed" in src)))
            out.append(("Wasabi", dict(src, net=net), ("wasabi", net)))
            out.append(("Bip85Data", dict(src, net=net), ("bip85data", net)))
    # LONG intervals in one call (hundreds of rows): one row per index, in order
    for st, en in (((0, 300), (250, 520)) if q else ((0, 300), (250, 520), (1, 1025), (2 ** 20 - 100, 2 ** 20 + 200))):
        out.append(("GenerateOrder", {"seed": B(bytes(range(64))), "mnemonic": T(""), "password": T(""), "net": rng.choice(["main", "test"]),
                                      "account": rng.choice([0, 3]), "start": B(st.to_bytes(5, "big")), "end": B(en.to_bytes(5, "big"))},
                    ("generate-long-interval", en - st > 256)))
    # wallets whose sentence the LIBRARY chose (fresh entropy, every length) or built from entropy, with and without a
    # passphrase: the printed MASTER block (sentence + passphrase) must regenerate every key that is printed under it
    k_ = 0
    for via, sizes in (("new_wallet", (12, 15, 18, 21, 24)), ("entropy_bits", (128, 160, 192, 224, 256)), ("entropy_hex", (16, 20, 24, 28, 32))):
        for n_ in (sizes if not q else (sizes[0], rng.choice(sizes[1:]))):
            for pw in (("", "TREZOR", "pässwörd ①", " padded ") if not q else ("", rng.choice(["TREZOR", "pässwörd ①", " padded "]))):
                nw = {"via": via, "n": n_}
                if via == "entropy_hex":
                    nw["hex"] = T(bytes(rng.randrange(256) for _ in range(n_)).hex())
                k_ += 1
                out.append(("Generate", {"new": nw, "mnemonic": T(""), "password": T(pw), "net": ("main", "test")[k_ % 2], "account": rng.choice([0, 1, 7]),
                                         "start": B((k_ % 3).to_bytes(5, "big")), "end": B((k_ % 3 + 2).to_bytes(5, "big")), "json": [False, 2][k_ % 2]},
                            ("generate-library-chosen-sentence", via, pw == "")))
    # passphrases taken from the library's OWN string literals (placeholders, markers, separators, key names,
    # templates filled with small numbers), rendered with an indent: what the code treats specially must still be
    # echoed and parse back unchanged
    lits = core.source_literals()
    ctx.notes["source_literal_passphrases"] = len(lits)
    for j, lit in enumerate(lits if not q else lits[:10] + rng.sample(lits[10:], min(len(lits[10:]), 2))):
        out.append(("Generate", {"mnemonic": T(MNEMONICS[j % 3] if j % 4 else lit), "password": T(lit), "net": "main", "account": 0,
                                 "start": B((0).to_bytes(5, "big")), "end": B((2).to_bytes(5, "big")), "json": [4, 2, 1][j % 3]},
                    ("generate-source-literal-passphrase",)))
    # wallets IMPORTED from a master extended private key of each of the six private flavours (x/y/z/t/u/v prv): the
    # three sections still carry THEIR purpose's flavour, whatever flavour the wallet came in
    from .. import refprims as R0, refwallet as W0
    tab0 = R0.Table()
    for t in sorted(W0.VERSIONS):
        if t[0] != "prv":
            continue
        rn = W0.master(tab0, bytes(rng.randrange(256) for _ in range(32)), t[1])
        s_ = W0.ser(tab0, rn, W0.VERSIONS[t], True)
        for acct, (st, en) in ((0, (0, 2)), (rng.choice([1, 44, 49, 84, 5]), (3, 4))) if not q else ((rng.choice([0, 1, 49]), (0, 1)),):
            out.append(("Generate", {"import": T(s_), "mnemonic": T(""), "password": T(""), "net": t[1], "account": acct,
                                     "start": B(st.to_bytes(5, "big")), "end": B(en.to_bytes(5, "big")), "json": False},
                        ("generate-imported", t[1], t[2])))
    # masters whose fingerprint has a leading zero nibble / byte (formatting corner of the Wasabi export)
    from .. import refprims as R, refwallet as W
    found = {"nibble": 0, "byte": 0}
    k = 0
    while (found["nibble"] < 3 or found["byte"] < (1 if q else 3)) and k < (3000 if q else 20000):
        seed = bytes([k & 255, k >> 8]) + bytes(14)
        k += 1
        rn = W.master(R.Table(), seed, "main")
        fp = R.hash160(rn.K)[:4]
        cls = "byte" if fp[0] == 0 else "nibble" if fp[0] < 16 else None
        if cls and found[cls] < 3:
            found[cls] += 1
            for net in ("main", "test"):
                out.append(("Wasabi", {"seed": B(seed), "mnemonic": T(""), "password": T(""), "net": net}, ("wasabi-fp-leading-zero", cls, net)))
    ctx.notes["masters_with_leading_zero_fingerprint"] = found
    return out


def describe(ev):
    i = ev["inp"]
    if ev["act"] == "Generate":
        return "%s wallet%s.generate(account=%d, interval=(%d, %d))" % (i["net"], " imported from " + core.untext(i["import"])[:4] if i.get("import") else "", i["account"], int.from_bytes(bytes(i["start"]), "big"), int.from_bytes(bytes(i["end"]), "big"))
    if ev["act"] == "GenerateOrder":
        return "%s wallet.generate(account=%d, interval=(%d, %d)) [row paths]" % (i["net"], i["account"], int.from_bytes(bytes(i["start"]), "big"), int.from_bytes(bytes(i["end"]), "big"))
    return "%s wallet.%s()" % (i["net"], "wasabi_json" if ev["act"] == "Wasabi" else "bip85_data")


def mut(e):
    import copy
    if e["act"] == "Generate" and e["res"]["ok"] and e["res"]["v"]["bip49"]["rows"]:
        c = copy.deepcopy(e)
        c["res"]["v"]["bip49"]["rows"][0][3][20] ^= 1
        return c
    if e["act"] == "Wasabi" and e["res"]["ok"]:
        c = copy.deepcopy(e)
        c["res"]["v"]["fp"][0] = 70 if c["res"]["v"]["fp"][0] != 70 else 69
        return c
    return None


def run(ctx):
    cfg = core.cfg_of("PaperWallet.cfg")
    if ctx.quick:
        cfg = cfg.replace("MasterKeys = {1, 3, 5, 7, 9, 11}", "MasterKeys = {1, 5, 9}").replace("MinDerivable = 100", "MinDerivable = 20")
    r = ctx.mc("PaperWallet", cfg, label="toy-scale record tree: networks x accounts x intervals (incl. empty, single-row, start>end) x masters")
    d = r.tuples("DERIVABLE")
    ctx.notes["derivable_wallet_combinations"] = d[0][1] if d else 0
    events = core.build_events(ctx, gen_inputs(ctx) if ctx.quick else core.rounds(ctx, gen_inputs, 3), procs=16)
    for e in events[:1] + events[-1:]:
        ctx.sample({"call": describe(e), "res": str(e["res"])[:300]})
    rj = ctx.validate(MODULE, events, min_shard=3)
    core.report_rejects(ctx, events, rj, describe)
    core.binding_selfcheck(ctx, MODULE, [e for e in events if e["id"] not in rj], mutate=mut)
    return ctx.finish(
        "model_checking",
        rule="one case = one PaperWallet.generate(account, interval) (every leaf of the three blocks re-derived by the "
             "specification from the mnemonic/seed; JSON rendering parsed back by TLC's own JSON reader), one wasabi_json(), "
             "one bip85_data(); distinct = (network, account corner, number of rows, start>end, source, outcome)",
        assumptions=["rows are capped at 4 per purpose to bound Base58 cost", "primitive values are oracle tables"],
        trusted_base=["TLC/SANY + its JSON module (Gson)", "spec/Bip32.tla, Bip39.tla, Address.tla, ExtKey.tla, KeyCodec.tla, PathGrammar.tla",
                      "hashlib", "harness secp256k1"],
        checker_cmd="./check C06 --tier " + ctx.tier)


def replay(ctx, path):
    return core.std_replay(ctx, path, MODULE)
