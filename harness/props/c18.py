"""C18 - invalid children are reported, never returned (chosen-PRF fault injection)."""
from .. import core, refprims as R
from ..core import B
from .c01 import b32, idx4, parent, describe as describe01, mut_node

MODULE = "Trace_Keys"
N = R.N
TOP = 2 ** 256 - 1


def out64(il, rng):
    return B(il.to_bytes(32, "big") + bytes(rng.randrange(256) for _ in range(32)))


def pub_parent(rng, k, **kw):
    p = parent(rng, k, **kw)
    K = R.pubkey(k)
    return {"prv": False, "K": B(K), "c": p["c"], "depth": p["depth"], "idx": p["idx"], "pfp": p["pfp"], "net": p["net"]}


def gen_inputs(ctx):
    rng, q = ctx.rng, ctx.quick
    out = []
    parents = [1, 2, N - 1, N - 2] + [rng.randrange(1, N) for _ in range(2 if q else 12)]
    idxs = [0, 1, 2 ** 31 - 1, 2 ** 31, 2 ** 32 - 1] if not q else [0, 2 ** 31 - 1, 2 ** 31]
    for k in parents:
        invalid = [(N, "IL=n"), (N + 1, "IL=n+1"), (TOP, "IL=2^256-1"), ((N - k) % N or N, "IL=n-k (zero child)")]
        valid = [((N - 1 - k) % N, "sum=n-1"), ((N + 1 - k) % N, "sum=n+1"), (N - 1, "IL=n-1"), (1, "IL=1")]
        for il, cls in invalid + valid:
            if il == 0:
                continue
            if cls.startswith(("sum", "IL=n-1", "IL=1")) and (il + k) % N == 0:
                continue
            for i in idxs:
                out.append(("CkdPriv", {"par": parent(rng, k), "i": idx4(i), "prf": {"all": out64(il, rng)}},
                            ("priv", cls, i >= 2 ** 31, k in (1, N - 1))))
                if i < 2 ** 31:
                    out.append(("CkdPub", {"par": pub_parent(rng, k), "i": idx4(i), "prf": {"all": out64(il, rng)}},
                                ("pub", cls.replace("zero child", "infinity"), k in (1, N - 1))))
    # master generation
    for il, cls in ((0, "IL=0"), (N, "IL=n"), (N + 1, "IL=n+1"), (TOP, "IL=2^256-1"), (N - 1, "IL=n-1 valid"), (1, "IL=1 valid")):
        for n in (16, 64):
            out.append(("Master", {"seed": B(bytes(rng.randrange(256) for _ in range(n))), "net": rng.choice(["main", "test"]),
                                   "prf": {"all": out64(il, rng)}}, ("master", cls)))
    # fault sequences on shared objects: invalid child, then a valid sibling, then a child of that sibling,
    # then the invalid one again and the valid one again (must repeat exactly)
    for _ in range(10 if q else 150):
        k = rng.choice(parents)
        private = rng.random() < 0.6
        ibad = rng.randrange(0, 2 ** 31) if (not private or rng.random() < 0.5) else rng.randrange(2 ** 31, 2 ** 32)
        igood = (ibad + 1 + rng.randrange(50)) % (2 ** 31)
        il_bad = rng.choice([N, TOP, (N - k) % N or N])
        steps = [{"from": 0, "i": idx4(ibad)}, {"from": 0, "i": idx4(igood)}, {"from": 2, "i": idx4(rng.randrange(2 ** 31))},
                 {"from": 0, "i": idx4(ibad)}, {"from": 0, "i": idx4(igood)}, {"from": 1, "i": idx4(3)}]
        root = parent(rng, k) if private else pub_parent(rng, k)
        out.append(("CkdSeq", {"root": root, "steps": steps, "prf": {"by_index": {str(ibad): out64(il_bad, rng)}}},
                    ("seq", private, il_bad >= N, ibad >= 2 ** 31)))
    # an invalid step INSIDE a path request (derive_path; BIP85's derivation of its entropy key): the whole request
    # fails - no neighbouring child is substituted.  The invalid step sits at every position of paths of length 1..4.
    for _ in range(12 if q else 200):
        k = rng.choice(parents)
        private = rng.random() < 0.6
        n = rng.randrange(1, 5)
        pos = rng.randrange(n)
        path = [rng.randrange(0, 2 ** 31) for _ in range(n)]
        ibad = rng.randrange(0, 2 ** 31 - 1) if (not private or rng.random() < 0.5) else rng.randrange(2 ** 31, 2 ** 32 - 1)
        while ibad in path or ibad + 1 in path:
            ibad = rng.randrange(0, 2 ** 31 - 1)
        path[pos] = ibad
        # the invalid class must come from the step's own parent: IL >= n works for every parent
        il_bad = rng.choice([N, N + 1, TOP])
        d0 = rng.choice([0, 1, 2, 127])
        root = parent(rng, k, depth=d0) if private else pub_parent(rng, k, depth=d0)
        out.append(("DerivePath", {"root": root, "path": [idx4(i) for i in path], "prf": {"by_index": {str(ibad): out64(il_bad, rng)}}},
                    ("path-fault", private, n, pos == 0, pos == n - 1)))
    # an invalid child INSIDE a bulk request (generate_children, the route of every paper-wallet row): the request fails,
    # whatever position the invalid index has in the batch; private and public parents, every invalid class
    b5 = lambda v: B(v.to_bytes(5, "big"))
    for _ in range(16 if q else 200):
        k = rng.choice(parents)
        private = rng.random() < 0.6
        st = rng.choice([0, 1, 2 ** 31 - 6, rng.randrange(0, 2 ** 31 - 8)]) if (not private or rng.random() < 0.6) else rng.choice([2 ** 31, 2 ** 31 - 3, rng.randrange(2 ** 31, 2 ** 32 - 8)])
        n = rng.randrange(1, 6)
        pos = rng.randrange(n)
        ibad = st + pos
        il_bad = rng.choice([N, N + 1, TOP, (N - k) % N or N])
        cls = "IL>=n" if il_bad >= N else "zero-child/infinity"
        par = parent(rng, k, depth=rng.choice([0, 3, 4])) if private else pub_parent(rng, k, depth=rng.choice([0, 3, 4]))
        out.append(("GenChildren", {"par": par, "start": b5(st), "end": b5(st + n), "prf": {"by_index": {str(ibad): out64(il_bad, rng)}}},
                    ("genchildren-fault", private, cls, pos == 0, pos == n - 1)))
    for app, p in (("mnemonic", 12), ("wif", 0), ("xprv", 0), ("hex", 32), ("pwd", 21)):
        for _ in range(1 if q else 6):
            k = rng.choice(parents)
            ix = rng.randrange(0, 2 ** 31 - 1)
            m = parent(rng, k, depth=0)
            # BIP85 paths are all-hardened: the index component is ix + 2^31
            out.append(("Bip85", {"master": m, "app": app, "p": p, "ix": {"mag": B(ix.to_bytes(5, "big")), "neg": False},
                                  "prf": {"by_index": {str(ix + 2 ** 31): out64(rng.choice([N, TOP]), rng)}}},
                        ("bip85-path-fault", app)))
    # BIP85: the LAST step of the application path gives the zero key (IL = n - k_parent of that step) - no secret is
    # derived from a key that does not exist
    from .. import refwallet as W
    for app, p in (("mnemonic", 12), ("wif", 0), ("xprv", 0), ("hex", 32), ("pwd", 21)):
        for _ in range(1 if q else 4):
            k = rng.choice(parents)
            ix = rng.randrange(0, 2 ** 31 - 1)
            m = parent(rng, k, depth=0)
            tab = R.Table()
            rm = W.RNode(bytes(m["k"]), R.pubkey(k), bytes(m["c"]), 0, 0, bytes(4), m["net"])
            rpar = W.derive(tab, rm, W.bip85_path(app, p, ix)[:-1])
            il = (N - int.from_bytes(rpar.k, "big")) % N
            if il:
                out.append(("Bip85", {"master": m, "app": app, "p": p, "ix": {"mag": B(ix.to_bytes(5, "big")), "neg": False},
                                      "prf": {"by_index": {str(ix + 2 ** 31): out64(il, rng)}}}, ("bip85-last-step-zero-key", app)))
    return out


def describe(ev):
    if ev["act"] == "GenChildren":
        return "generate_children((%d, %d)) on a %s node, chosen PRF at one index" % (
            int.from_bytes(bytes(ev["inp"]["start"]), "big"), int.from_bytes(bytes(ev["inp"]["end"]), "big"), "private" if ev["inp"]["par"]["prv"] else "public")
    if ev["act"] == "DerivePath":
        return "derive_path(%s) on a %s node, chosen PRF at one step" % (
            [int.from_bytes(bytes(x), "big") for x in ev["inp"]["path"]], "private" if ev["inp"]["root"]["prv"] else "public")
    if ev["act"] == "Bip85":
        return "bip85.%s(index=%d), chosen PRF at the index step" % (ev["inp"]["app"], int.from_bytes(bytes(ev["inp"]["ix"]["mag"]), "big"))
    if ev["act"] == "CkdSeq":
        return "sequence on shared %s node: %s" % ("private" if ev["inp"]["root"]["prv"] else "public",
                                                     [(s["from"], int.from_bytes(bytes(s["i"]), "big")) for s in ev["inp"]["steps"]])
    d = describe01(ev)
    if ev["inp"].get("prf"):
        d += " IL=%s.." % bytes(ev["inp"]["prf"]["all"][:32]).hex()[:16]
    return d


def site(ev, clause):
    if ev["act"] == "CkdSeq":
        return "PrvKeyNode.ckd" if ev["inp"]["root"]["prv"] else "PubKeyNode.ckd"
    return {"CkdPriv": "PrvKeyNode.ckd", "CkdPub": "PubKeyNode.ckd", "Master": "PrvKeyNode.master_key",
            "DerivePath": "derive_path", "Bip85": "BIP85DeterministicEntropy"}.get(ev["act"], ev["act"])


def run(ctx):
    cfg = core.cfg_of("MC_Bip32.cfg")
    if not ctx.quick:
        cfg = cfg.replace("MaxDepth = 1", "MaxDepth = 2").replace("IndexVals = {0, 1, 2, 3, 4, 5, 6, 7}", "IndexVals = {0, 1, 4, 5}") \
                 .replace('Nets = {"main", "test"}', 'Nets = {"main"}')
    ctx.mc("MC_Bip32", cfg, label="toy-scale BIP32 walk: every PRF answer incl. IL>=n, zero child, infinity")
    ctx.mc("MC_Bip32", core.cfg_of("MC_Bip32.cfg").replace("ChainCodes = {0, 7}", "ChainCodes = {0}")
           .replace("IndexVals = {0, 1, 2, 3, 4, 5, 6, 7}", "IndexVals = {0, 4}").replace('Nets = {"main", "test"}', 'Nets = {"main"}'),
           coverage=True, label="action-label run (reduced alphabet)")
    ctx.require_actions("MC_Bip32", ["Derive", "Commit"])
    events = core.build_events(ctx, gen_inputs(ctx))
    for e in events[:2] + events[-1:]:
        ctx.sample({"call": describe(e), "res": str(e["res"])[:200]})
    rj = ctx.validate(MODULE, events, min_shard=20)
    core.report_rejects(ctx, events, rj, describe, site)
    core.binding_selfcheck(ctx, MODULE, [e for e in events if e["id"] not in rj and e["act"] != "CkdSeq"], mutate=mut_node)
    return ctx.finish(
        "model_checking",
        rule="one case = one derivation (or a sequence on shared objects) with the HMAC output substituted at the hmac "
             "module level; distinct = (side, IL class, index side, parent class, outcome). Invalid classes must raise; "
             "valid-but-extreme classes (sum = n-1, n+1, IL = n-1, IL = 1) must succeed.",
        assumptions=["the substitution is applied at hmac.new/hmac.digest, i.e. below helper.hmac_sha512, for both back-ends",
                     "IL = 0 on the public side is valid per BIP32 but refused by common libraries: not judged"],
        trusted_base=["TLC/SANY", "spec/Bip32.tla", "harness secp256k1 (self-tested)", "hashlib", "harness projection"],
        checker_cmd="./check C18 --tier " + ctx.tier)


def replay(ctx, path):
    return core.std_replay(ctx, path, MODULE)
