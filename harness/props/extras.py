"""EXTRAS - specification growth beyond the twenty listed properties (not registered in MANIFEST.json):
merkle helpers (incl. the in-place change of the caller's list), Script.__add__, bech32_decode_address,
the Bip32Path predicates (purpose / coin / chain slots) that select SLIP-132 flavour and network.
Run: ./check EXTRAS --tier quick"""
from .. import core
from ..core import B, T
from . import c11, c19

MODULE = "Trace_Pure"


def run(ctx):
    rng, q = ctx.rng, ctx.quick
    ctx.mc("MC_Merkle", core.cfg_of("MC_Merkle.cfg"), coverage=True, label="merkle helpers with a perfect abstract hash; caller's list as state")
    ctx.require_actions("MC_Merkle", ["CallLevel", "CallRoot"])
    neg = ctx.mc("MC_Merkle", core.cfg_of("MC_Merkle.cfg").replace("INVARIANT ListIsOriginalPlusCopies", "INVARIANT RootInjective"),
                 expect_ok=False, label="documented fact: the root is not injective on lists (duplicate-last ambiguity)")
    if "RootInjective" not in neg.out:
        raise core.MachineryError("expected RootInjective to be violated")
    inputs = []
    h = lambda: B(bytes(rng.randrange(256) for _ in range(32)))
    for n in range(0, 12 if q else 40):
        for _ in range(2):
            lst = [h() for _ in range(n)]
            inputs.append(("MerkleLevel", lst, ("level", n % 2, n <= 1)))
            inputs.append(("MerkleRoot", lst, ("root", n % 2, n <= 1)))
    for _ in range(30 if q else 300):
        mk = lambda: [({"op": rng.choice([0, 0x51, 0x76, 0xa9, 0xac])} if rng.random() < 0.5 else
                       {"d": B(bytes(rng.randrange(256) for _ in range(rng.choice([1, 20, 75, 76, 255, 256, 520]))))})
                      for _ in range(rng.randrange(0, 4))]
        inputs.append(("ScriptAdd", {"a": mk(), "b": mk()}, ("add",)))
    for hrp in ("bc", "tb"):
        for ver, n in ((0, 20), (0, 32), (1, 32), (16, 2), (5, 40)):
            a = c11.addr(hrp, ver, bytes(rng.randrange(256) for _ in range(n)))
            inputs.append(("Bech32DecodeAddress", T(a), ("decode-address", hrp, ver)))
            inputs.append(("Bech32DecodeAddress", T(a.upper()), ("decode-address-upper", hrp, ver)))
    # the path predicates behind version / network selection
    vals = ["44'", "49'", "84'", "44", "49", "84", "0'", "1'", "0", "1", "2'", "45'", "85'", "2147483647'", "83696968'"]
    for _ in range(150 if q else 3000):
        n = rng.randrange(0, 6)
        toks = [rng.choice(vals) for _ in range(n)]
        if rng.random() < 0.5 and n >= 1:
            toks[0] = rng.choice(["44'", "49'", "84'", "44h", "84h"])
        inputs.append(("PathProps", T("/".join([rng.choice("mM")] + toks)), ("pathprops", n)))
    events = core.build_events(ctx, inputs)
    rj = ctx.validate(MODULE, events, shards=4)
    core.report_rejects(ctx, events, rj)
    ctx.sample({"act": events[3]["act"], "res": str(events[3]["res"])[:120]})
    return ctx.finish("model_checking", rule="growth checks (see module docstring)", assumptions=[], trusted_base=["TLC/SANY", "spec/Merkle.tla, Wire.tla, Bech32.tla"],
                      checker_cmd="./check EXTRAS --tier " + ctx.tier)


def replay(ctx, path):
    return core.std_replay(ctx, path, MODULE)
