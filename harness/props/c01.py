"""C01 - BIP32 private child derivation matches the spec for every parent and index."""
from .. import core, refprims as R
from ..core import B

MODULE = "Trace_Keys"
N = R.N


def b32(v):
    return B(v.to_bytes(32, "big"))


def idx4(i):
    return B(i.to_bytes(4, "big"))


def scalars(rng, q):
    s = [(1, "1"), (2, "2"), (N - 1, "n-1"), (N - 2, "n-2"), (N // 2, "n/2"), (N // 2 + 1, "n/2+1")]
    for z in range(1, 32):                      # values with z leading zero bytes
        if q and z not in (1, 2, 7, 16, 30, 31):
            continue
        v = rng.randrange(1 << (8 * (32 - z) - 8), 1 << (8 * (32 - z)))
        s.append((v, "lz%d" % z))
    for k in (1, 8, 31, 128, 200, 255):
        s.append((1 << k, "2^k"))
        s.append(((1 << k) - 1, "2^k-1"))
    for _ in range(4 if q else 40):
        s.append((rng.randrange(1, N), "rand"))
    return s


INDEXES = [0, 1, 2 ** 31 - 1, 2 ** 31, 2 ** 31 + 1, 2 ** 32 - 1]


def parent(rng, k, depth=None, idx=None, net=None, cc=None):
    depth = rng.choice([0, 1, 2, 127, 253, 254]) if depth is None else depth
    if idx is None:
        idx = 0 if depth == 0 else rng.choice(INDEXES + [rng.randrange(2 ** 32)])
    pfp = bytes(4) if depth == 0 else bytes(rng.randrange(256) for _ in range(4))
    if cc is None:
        cc = rng.choice([bytes(32), b"\xff" * 32, bytes(rng.randrange(256) for _ in range(32)),
                         bytes(rng.randrange(256) for _ in range(32))])
    return {"prv": True, "k": b32(k), "c": B(cc), "depth": depth, "idx": idx4(idx), "pfp": B(pfp),
            "net": net or rng.choice(["main", "test"])}


def gen_inputs(ctx):
    rng, q = ctx.rng, ctx.quick
    out = []
    sc = scalars(rng, q)
    # real PRF: every scalar class x every index class
    for k, kc in sc:
        for i in (INDEXES if not q else rng.sample(INDEXES, 3)) + [rng.randrange(2 ** 31), rng.randrange(2 ** 31, 2 ** 32)]:
            par = parent(rng, k)
            out.append(("CkdPriv", {"par": par, "i": idx4(i)},
                        ("real", kc, i >= 2 ** 31, par["depth"] in (0, 254), par["net"])))
    # chosen IL: the algebraic corners of (IL + k_par) mod n that no real seed reaches
    for k, kc in (sc if not q else sc[:6] + rng.sample(sc[6:], 8)):
        targets = [(N - 1, "sum=n-1"), (1, "sum=n+1"), (2, "wrap->2"), (k, "IL=0?"), (256, "tiny-256"),
                   (255, "tiny-255"), (65536 * 7, "tiny"), (N // 3, "generic")]
        for tgt, tc in targets:
            il = (tgt - k) % N
            if il == 0 and tc != "IL=0?":
                continue
            for i in (0, 2 ** 31 + 5) if not q else (rng.choice([0, 7, 2 ** 31 + 5]),):
                ir = bytes(rng.randrange(256) for _ in range(32))
                par = parent(rng, k)
                out.append(("CkdPriv", {"par": par, "i": idx4(i), "prf": {"all": B(il.to_bytes(32, "big") + ir)}},
                            ("chosen", kc, tc, i >= 2 ** 31, il + k >= N)))
    # IL with leading zero bytes, IL = n-1 (largest valid)
    for il, tc in ((1, "IL=1"), (N - 1, "IL=n-1"), (255, "IL=255"), (1 << 200, "IL=2^200")):
        for k, kc in rng.sample(sc, 3):
            if (il + k) % N == 0:
                continue
            par = parent(rng, k)
            out.append(("CkdPriv", {"par": par, "i": idx4(rng.choice(INDEXES)),
                                    "prf": {"all": B(il.to_bytes(32, "big") + bytes(32))}}, ("chosen-il", tc, kc)))
    # multi-level paths (transitivity), private roots
    for _ in range(12 if q else 150):
        n = rng.randrange(1, 9)
        path = [rng.choice(INDEXES + [rng.randrange(2 ** 32), rng.randrange(100)]) for _ in range(n)]
        k, kc = rng.choice(sc)
        root = parent(rng, k, depth=rng.choice([0, 1, 100, 255 - n]))
        out.append(("DerivePath", {"root": root, "path": [idx4(i) for i in path]},
                    ("path", n, kc, any(i >= 2 ** 31 for i in path), all(i >= 2 ** 31 for i in path))))
    # the caller keeps only the derived node (PrvKeyNode.parse(xprv).ckd(i), a helper returning derive_path's result):
    # whatever is printed for it afterwards must not depend on the parent object still being around
    import copy
    base = [x for x in out if x[0] in ("CkdPriv", "DerivePath") and "prf" not in x[1]]
    for a, inp, key in rng.sample(base, min(len(base), 10 if q else 150)):
        inp2 = copy.deepcopy(inp)
        inp2["drop"] = True
        out.append((a, inp2, ("parent-object-dropped", a) + tuple(key[-2:])))
    # bulk generation: intervals on either side of and ACROSS the hardened boundary, at the ends of the index range, empty
    b5 = lambda v: B(v.to_bytes(5, "big"))
    for st, en, c in ((0, 3, "low"), (2 ** 31 - 2, 2 ** 31 + 2, "straddle"), (2 ** 31 - 1, 2 ** 31 + 1, "straddle-2"), (2 ** 31, 2 ** 31 + 2, "hardened"),
                      (2 ** 32 - 2, 2 ** 32, "top"), (5, 5, "empty"), (7, 3, "reversed"), (2 ** 31 - 3, 2 ** 31, "up-to-boundary")):
        for k, kc in rng.sample(sc, 1 if q else 4):
            out.append(("GenChildren", {"par": parent(rng, k, depth=rng.choice([0, 1, 3])), "start": b5(st), "end": b5(en)}, ("genchildren", c)))
    # the path handed over as a one-shot iterable (generator, map object, iter(list))
    for a, inp, key in rng.sample([x for x in out if x[0] == "DerivePath" and "prf" not in x[1] and "drop" not in x[1]], 4 if q else 40):
        inp2 = copy.deepcopy(inp)
        inp2["form"] = "iterator"
        out.append((a, inp2, ("path-as-iterator", len(inp2["path"]))))
    # master generation for several seed lengths
    for n in (16, 32, 64, 1, 0, 65, 128):
        for _ in range(1 if q else 5):
            out.append(("Master", {"seed": B(bytes(rng.randrange(256) for _ in range(n))), "net": rng.choice(["main", "test"])},
                        ("master", n)))
    return out


def describe(ev):
    i = ev["inp"]
    if ev["act"] in ("CkdPriv", "CkdPub"):
        return "%s(k=%s.., depth=%d, i=%d%s)" % (ev["act"], bytes(i["par"].get("k", i["par"].get("K", [])))[:6].hex(),
                                                   i["par"]["depth"], int.from_bytes(bytes(i["i"]), "big"),
                                                   (", chosen PRF" if i.get("prf") else "") + (", parent object dropped" if i.get("drop") else ""))
    if ev["act"] == "GenChildren":
        return "generate_children((%d, %d)) on a %s node" % (int.from_bytes(bytes(i["start"]), "big"), int.from_bytes(bytes(i["end"]), "big"),
                                                            "private" if i["par"]["prv"] else "public")
    if ev["act"] == "DerivePath":
        return "derive_path(%s)%s" % ([int.from_bytes(bytes(x), "big") for x in i["path"]], " (root object dropped)" if i.get("drop") else "")
    return ev["act"]


def mut_node(e):
    import copy
    if e["res"]["ok"] and "node" in e["res"]["v"]:
        c = copy.deepcopy(e)
        c["res"]["v"]["node"]["c"][5] ^= 1
        return c
    return None


def run(ctx):
    cfg = core.cfg_of("MC_Bip32.cfg")
    if not ctx.quick:
        cfg = cfg.replace("MaxDepth = 1", "MaxDepth = 2").replace("IndexVals = {0, 1, 2, 3, 4, 5, 6, 7}", "IndexVals = {0, 1, 4, 5}") \
                 .replace('Nets = {"main", "test"}', 'Nets = {"main"}')
    ctx.mc("MC_Bip32", cfg, label="toy-scale BIP32 walk, TLC-chosen PRF: all parents x all IL x indexes")
    # action labels on a reduced alphabet (the labelled graph of the full model is large)
    ctx.mc("MC_Bip32", core.cfg_of("MC_Bip32.cfg").replace("ChainCodes = {0, 7}", "ChainCodes = {0}")
           .replace("IndexVals = {0, 1, 2, 3, 4, 5, 6, 7}", "IndexVals = {0, 4}").replace('Nets = {"main", "test"}', 'Nets = {"main"}'),
           coverage=True, label="action-label run (reduced alphabet)")
    ctx.require_actions("MC_Bip32", ["Derive", "Commit"])
    events = core.build_events(ctx, gen_inputs(ctx))
    # executions the repository's own tests trigger, judged by the same trace specification
    events += core.suite_events(ctx, ["tests/test_bip32.py", "tests/test_bip44.py", "tests/test_bip84.py", "tests/test_base_wallet.py"],
                                ("CkdPriv",), len(events), limit=150 if ctx.quick else 3000)
    for e in events[:1] + events[len(events) // 2:len(events) // 2 + 1] + events[-1:]:
        ctx.sample({"call": describe(e), "res": str(e["res"])[:300], "prf_queries_seen": len(e.get("q", []))})
    rj = ctx.validate(MODULE, events, min_shard=20)
    core.report_rejects(ctx, events, rj, describe)
    core.binding_selfcheck(ctx, MODULE, [e for e in events if e["id"] not in rj], mutate=mut_node)
    return ctx.finish(
        "model_checking",
        rule="one case = one PrvKeyNode.ckd / derive_path / master_key call on a node built through the public "
             "constructor; distinct = (PRF mode, parent-scalar class, index side, depth/sum class, network, outcome). "
             "Chosen-PRF cases realise IL + k_par = n-1, n+1, wrap-around, and children with many leading zero bytes.",
        assumptions=["HMAC-SHA512, RIPEMD160(SHA256(.)), double SHA-256 and k*G are oracle tables (hashlib / harness secp256k1)",
                     "depth-256 children (parent depth 255) are outside the property and only their key material is compared"],
        trusted_base=["TLC/SANY", "spec/Bip32.tla, ExtKey.tla, Base58.tla, Bytes.tla", "hashlib (OpenSSL)", "harness secp256k1 (self-tested)",
                      "harness projection"],
        checker_cmd="./check C01 --tier " + ctx.tier)


def replay(ctx, path):
    return core.std_replay(ctx, path, MODULE)
