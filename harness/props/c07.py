"""C07 - extended keys round-trip through serialisation for all fields and 12 versions."""
from .. import core, refprims as R, refwallet as W
from ..core import B, T
from .c01 import b32, idx4

MODULE = "Trace_Keys"
N = R.N
TRIPLES = sorted(W.VERSIONS)


def ver4(t):
    return B(W.VERSIONS[t].to_bytes(4, "big"))


def mk_node(rng, k, depth, idx, pfp, cc, net, prv=True):
    d = {"prv": prv, "c": B(cc), "depth": depth, "idx": idx4(idx), "pfp": B(pfp), "net": net}
    if prv:
        d["k"] = b32(k)
    else:
        d["K"] = B(R.pubkey(k))
    return d


def payload_of(node, version, private):
    rn = W.RNode(bytes(node["k"]) if node["prv"] else None,
                 R.pubkey(int.from_bytes(bytes(node["k"]), "big")) if node["prv"] else bytes(node["K"]),
                 bytes(node["c"]), node["depth"], int.from_bytes(bytes(node["idx"]), "big"), bytes(node["pfp"]), node["net"])
    return W.payload(rn, version, private)


def gen_inputs(ctx):
    rng, q = ctx.rng, ctx.quick
    out = []
    rb = lambda n: bytes(rng.randrange(256) for _ in range(n))
    depths = [0, 1, 254, 255] + [rng.randrange(2, 254)]
    idxs = [0, 2 ** 31 - 1, 2 ** 31, 2 ** 32 - 1, rng.randrange(2 ** 32)]
    pfps = [bytes(4), b"\xff" * 4, rb(4)]
    ccs = [bytes(32), b"\xff" * 32, rb(32)]
    ks = [1, N - 1, rng.randrange(1, 1 << 200), rng.randrange(1, N), rng.randrange(1, N)]
    nodes = []
    for _ in range(8 if q else 60):
        nodes.append(mk_node(rng, rng.choice(ks), rng.choice(depths), rng.choice(idxs), rng.choice(pfps),
                             rng.choice(ccs), rng.choice(["main", "test"])))
    # corner grid: each field at its corners once
    for d in depths:
        nodes.append(mk_node(rng, ks[3], d, 0 if d == 0 else 7, bytes(4) if d == 0 else pfps[2], ccs[2], "main"))
    for i in idxs:
        nodes.append(mk_node(rng, ks[4], 3, i, pfps[2], ccs[2], "test"))
    nodes.append(mk_node(rng, ks[2], 0, 7, pfps[2], ccs[2], "main"))           # depth 0 but a child number: not a master
    nodes.append(mk_node(rng, ks[0], 0, 0, bytes(4), ccs[0], "main"))          # master, k = 1
    nodes.append(mk_node(rng, ks[1], 0, 0, pfps[1], ccs[1], "test"))           # master-shaped with a stray fingerprint
    for node in nodes:
        for t in TRIPLES:
            if q and rng.random() < 0.5 and node is not nodes[-1]:
                continue
            kind = t[0]
            # serialise under every admissible version: 6 pub for any node, 6 prv for private nodes
            out.append(("ExtSer", {"node": node, "version": ver4(t), "kind": kind},
                        ("ser", t, node["depth"] in (0, 255), node["idx"][0] >= 128)))
            pay = payload_of(node, W.VERSIONS[t], kind == "prv")
            s = R.b58check_enc(pay)
            for form in ("str", "bytes", "stream"):
                if q and form != "str" and rng.random() < 0.6:
                    continue
                out.append(("ExtParse", {"s": T(s) if form == "str" else B(pay), "form": form, "asPrv": kind == "prv",
                                         "net": node["net"]}, ("parse", form, t, node["depth"] in (0, 255))))
            if rng.random() < (0.15 if q else 0.4):
                out.append(("ExtParse", {"s": B(pay), "form": "rawstream", "chunk": rng.choice([1, 3, 5, 7, 33, 40]), "asPrv": kind == "prv",
                                         "net": node["net"]}, ("parse", "rawstream", t)))
            out.append(("Import", {"s": T(s)}, ("import", t)))
            if rng.random() < (0.3 if q else 0.6):
                # the key inside a longer stream: after other data, and followed by a second key
                pre = bytes(rng.randrange(256) for _ in range(rng.choice([1, 4, 78, 100])))
                other = payload_of(nodes[0], W.VERSIONS[t], kind == "prv")
                out.append(("ExtParse", {"s": B(pre + pay + other), "form": "stream-offset", "offset": len(pre), "asPrv": kind == "prv",
                                         "net": node["net"]}, ("parse", "stream-offset", t)))
    # byte-value corners at the END of the 78-byte record (the last key byte): ASCII / Latin-1 blanks, NUL, 0xff -
    # whatever trimming or text handling a parser applies to its input shows here, in the raw forms
    WS = [0x09, 0x0a, 0x0b, 0x0c, 0x0d, 0x20, 0x00, 0xff, 0x85, 0xa0, 0x1c, 0x1f]
    tails = WS if q else list(range(256))
    pub_by_tail = {}
    cur, kk = None, 0
    while len(pub_by_tail) < len(tails) and kk < 20000:
        cur = R.pt_add(cur, R.G)
        kk += 1
        tb = cur[0] & 0xff
        if tb in tails and tb not in pub_by_tail:
            pub_by_tail[tb] = kk
    for tb in tails:
        kprv = (rng.randrange(1, N >> 8) << 8) | tb
        if 0 < kprv < N:
            node = mk_node(rng, kprv, 3, 5, pfps[2], ccs[2], "main")
            pay = payload_of(node, W.VERSIONS[("prv", "main", "bip44")], True)
            for form in ("bytes", "stream", "str"):
                out.append(("ExtParse", {"s": T(R.b58check_enc(pay)) if form == "str" else B(pay), "form": form, "asPrv": True, "net": "main"},
                            ("parse-key-tail-byte", "prv", form, tb in WS)))
        if tb in pub_by_tail:
            node = mk_node(rng, pub_by_tail[tb], 2, 2 ** 31 + 1, pfps[2], ccs[2], "test", prv=False)
            pay = payload_of(node, W.VERSIONS[("pub", "test", "bip84")], False)
            for form in ("bytes", "stream", "str"):
                out.append(("ExtParse", {"s": T(R.b58check_enc(pay)) if form == "str" else B(pay), "form": form, "asPrv": False, "net": "test"},
                            ("parse-key-tail-byte", "pub", form, tb in WS)))
    # one PRIVATE node object asked for both kinds of key with the SAME explicit version number (a loop over all twelve
    # prefixes for both methods does exactly this): each answer is what its method says, whatever was asked before
    for node in nodes[:2 if q else 8]:
        for t in TRIPLES:
            out.append(("ExtSer", {"node": node, "version": ver4(t), "kind": "pub", "other_kind_first": True}, ("ser-after-other-kind", "pub", t[0])))
            if not q or t[2] == "bip44":
                out.append(("ExtSer", {"node": node, "version": ver4(t), "kind": "prv", "other_kind_first": True}, ("ser-after-other-kind", "prv", t[0])))
    # nodes built with a parent OBJECT (public constructor, `parent=`): the parent fingerprint in the string is that
    # object's fingerprint, whether or not anything was ever derived from it
    for _ in range(3 if q else 20):
        kpar = rng.randrange(1, N)
        par = mk_node(rng, kpar, 2, 9, rb(4), rb(32), "main")
        child = mk_node(rng, rng.randrange(1, N), 3, rng.choice(idxs), R.hash160(R.pubkey(kpar))[:4], rb(32), "main")
        child["parent"] = par
        for t in (("prv", "main", "bip44"), ("pub", "main", "bip84")):
            out.append(("ExtSer", {"node": child, "version": ver4(t), "kind": t[0]}, ("ser-node-with-parent-object", t[0])))
    # public serialisation of PUBLIC nodes (no scalar anywhere in the process)
    for _ in range(4 if q else 30):
        node = mk_node(rng, rng.choice(ks), rng.choice(depths), rng.choice(idxs), rng.choice(pfps), rng.choice(ccs),
                       rng.choice(["main", "test"]), prv=False)
        for t in [t for t in TRIPLES if t[0] == "pub"]:
            out.append(("ExtSer", {"node": node, "version": ver4(t), "kind": "pub"}, ("ser-pubnode", t)))
    # unknown versions: each of the twelve with one bit flipped, plus foreign constants
    base = nodes[0]
    for t in TRIPLES:
        v = W.VERSIONS[t]
        for bit in ([0, 7, 13, 31] if q else range(32)):
            v2 = v ^ (1 << bit)
            if v2 in W.VERSIONS.values():
                continue
            pay = payload_of(base, v2, t[0] == "prv")
            out.append(("Import", {"s": T(R.b58check_enc(pay))}, ("import-unknown", "bitflip")))
    # near misses: the integers around each known version (several of them encode to the SAME four leading characters)
    for t in TRIPLES:
        v = W.VERSIONS[t]
        for dv in ((1, 2, 5, -1) if q else (1, 2, 3, 4, 5, 6, 7, -1, -2, -3, 256, -256, 65536)):
            v2 = (v + dv) % 2 ** 32
            if v2 not in W.VERSIONS.values():
                out.append(("Import", {"s": T(R.b58check_enc(payload_of(base, v2, t[0] == "prv")))}, ("import-unknown", "near", dv)))
    # the rest of the SLIP-132 registry (multisig Ypub/Zpub/Upub/Vpub and their private twins, other coins): known
    # to other software, unknown to this library
    for v2 in (0x0295b43f, 0x0295b005, 0x02aa7ed3, 0x02aa7a99, 0x024289ef, 0x024285b5, 0x02575483, 0x02575048,
               0x01b26ef6, 0x01b26792, 0x02fe52cc, 0x02fe52f8, 0x0436f6e1, 0x0436ef7d):
        for prv in (True, False):
            out.append(("Import", {"s": T(R.b58check_enc(payload_of(base, v2, prv)))}, ("import-unknown", "slip132-registry")))
    # key data that contradicts the version: a public version carrying 00 || k, a private version carrying a point -
    # the VERSION decides the key type (such a key may be refused; it must not become a wallet of the other type)
    for t in TRIPLES:
        good_ = payload_of(base, W.VERSIONS[t], t[0] == "prv")
        other = payload_of(base, W.VERSIONS[t], t[0] != "prv")
        crossed = good_[:45] + other[45:]
        out.append(("Import", {"s": T(R.b58check_enc(crossed))}, ("import-key-data-contradicts-version", t[0])))
    for v2 in (0x019da462, 0x019d9cfe, 0x02facafd, 0x02fac398, 0, 0xffffffff, 0x0488b21f, 0x0488ade5):
        for prv in (True, False):
            out.append(("Import", {"s": T(R.b58check_enc(payload_of(base, v2, prv)))}, ("import-unknown", "foreign")))
    # the version table itself: every known version and near misses
    for t in TRIPLES:
        out.append(("VersionParse", ver4(t), ("version", t)))
        v = W.VERSIONS[t]
        for bit in (0, 9, 31):
            if (v ^ (1 << bit)) not in W.VERSIONS.values():
                out.append(("VersionParse", B((v ^ (1 << bit)).to_bytes(4, "big")), ("version-unknown",)))
    # malformed strings for import
    good = R.b58check_enc(payload_of(base, W.VERSIONS[("prv", "main", "bip44")], True))
    for s in (good[:-1], good + "1", good[:50] + ("2" if good[50] != "2" else "3") + good[51:], "", "xprv"):
        out.append(("Import", {"s": T(s)}, ("import-malformed",)))
    return out


def describe(ev):
    i = ev["inp"]
    if ev["act"] == "ExtSer":
        return "extended_%s_key(version=0x%s) depth=%d" % ("private" if i["kind"] == "prv" else "public",
                                                          bytes(i["version"]).hex(), i["node"]["depth"])
    if ev["act"] == "ExtParse":
        return "%s.parse(<%s>)" % ("PrvKeyNode" if i["asPrv"] else "PubKeyNode", i["form"])
    if ev["act"] == "VersionParse":
        return "Version.parse(0x%s)" % bytes(i).hex()
    return "BaseWallet.from_extended_key(%r)" % core.untext(i["s"])[:24]


def mut(e):
    import copy
    if e["act"] == "ExtSer" and e["res"]["ok"]:
        c = copy.deepcopy(e)
        c["res"]["v"][60] = 49 if c["res"]["v"][60] != 49 else 50
        body = R.b58check_body(core.untext(c["res"]["v"]))
        c["o"].append({"f": "hash256", "i": B(body), "o": B(R.hash256(body))})
        return c
    if e["act"] == "ExtParse" and e["res"]["ok"]:
        c = copy.deepcopy(e)
        c["res"]["v"]["node"]["depth"] ^= 1
        return c
    return None


def run(ctx):
    ctx.mc("MC_ExtKey", core.cfg_of("MC_ExtKey.cfg"), label="12 versions + near misses x field corners (payload level); 111-char theorem")
    events = core.build_events(ctx, gen_inputs(ctx) if ctx.quick else core.rounds(ctx, gen_inputs, 4))
    events += core.suite_events(ctx, ["tests/test_bip32.py", "tests/test_base_wallet.py", "tests/test_bip49.py", "tests/test_bip85.py"],
                                ("ExtSer", "ExtParse", "Import"), len(events), limit=80 if ctx.quick else 1500)
    for e in events[:1] + events[5:6] + events[-1:]:
        ctx.sample({"call": describe(e), "res": str(e["res"])[:200]})
    rj = ctx.validate(MODULE, events, min_shard=30)
    core.report_rejects(ctx, events, rj, describe)
    core.binding_selfcheck(ctx, MODULE, [e for e in events if e["id"] not in rj], mutate=mut)
    return ctx.finish(
        "model_checking",
        rule="one case = one extended_*_key(version) / Prv|PubKeyNode.parse (str, bytes, stream) / from_extended_key call; "
             "distinct = (action, version triple, input form, depth/index corner, outcome). All 12 versions are used "
             "exhaustively; unknown versions = each of the 12 with one bit flipped + foreign constants.",
        assumptions=["only payloads that are valid per BIP32 (scalar in [1,n-1] / point on curve) are judged for parsing",
                     "a master-shaped payload (depth 0, index 0) with a non-zero fingerprint is not required to re-serialise identically"],
        trusted_base=["TLC/SANY", "spec/ExtKey.tla, Base58.tla", "hashlib", "harness secp256k1", "harness projection"],
        checker_cmd="./check C07 --tier " + ctx.tier)


def replay(ctx, path):
    return core.std_replay(ctx, path, MODULE)
