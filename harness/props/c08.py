"""C08 - new wallets draw their full entropy from the operating system's CSPRNG."""
import random as pyrandom

from .. import core, refprims as R
from .. import replay as simreplay
from ..core import T
from ..recorders import EntropyTap

MODULE = "Trace_Keys"
ENT = {12: 128, 15: 160, 18: 192, 21: 224, 24: 256}


def indices(sentence):
    from btc_hd_wallet.bip39_wordlist import word_list
    pos = {w: i for i, w in enumerate(word_list)}
    return [pos.get(w, -1) for w in sentence.split(" ")]


def decode(sentence):
    """sentence -> entropy bytes (harness-side decoding, used for influence/collision checks;
    checksum validity is judged by the specification in the NewMnemonic events)"""
    idx = indices(sentence)
    if any(i < 0 for i in idx):
        return None
    bits = "".join(bin(i)[2:].zfill(11) for i in idx)
    ent = len(bits) * 32 // 33
    return int(bits[:ent], 2).to_bytes(ent // 8, "big")


class Feed:
    """chosen OS bytes: request k of the run gets bytes from a fixed stream (so that two runs with
    different reseed patterns see the same OS answers)"""

    def __init__(self, stream):
        self.stream = stream
        self.pos = 0

    def __call__(self, n):
        b = bytes(self.stream[(self.pos + i) % len(self.stream)] for i in range(n))
        self.pos += n
        return b


def new_mnemonic(words, via):
    from btc_hd_wallet import bip39, BaseWallet
    if via == "wallet":
        return BaseWallet.new_wallet(mnemonic_length=words).mnemonic
    return bip39.mnemonic_from_entropy_bits(ENT.get(words, words * 32 // 3))


def run_behaviour(steps, stream, reseed_shift=0, extra_draws=0, lengths=None, via="bip39"):
    """step the real library through one Entropy.tla behaviour; returns the list of New observations"""
    obs = []
    feed = Feed(stream)
    k = 0
    for st in steps[1:]:
        a, args = st["action"], st["args"]
        if a == "Reseed":
            pyrandom.seed(args[0] + reseed_shift)
        elif a == "PrngDraw":
            for _ in range(1 + extra_draws):
                pyrandom.random()
        elif a in ("New",):
            words = lengths[k % len(lengths)] if lengths else (12 if args[0] == 12 else 24)
            k += 1
            before = pyrandom.getstate()
            with EntropyTap(feed=feed) as tap:
                m = new_mnemonic(words, via)
            after = pyrandom.getstate()
            obs.append({"words": words, "mnemonic": m, "requests": [(s, n) for s, n, b in tap.requests],
                        "fed": b"".join(b for s, n, b in tap.requests), "prng_same": before == after})
    return obs


def event_of(o, via, eid):
    tab = R.Table()
    ent = decode(o["mnemonic"])
    if ent is not None:
        tab.sha256(ent)
    return {"id": eid, "act": "NewMnemonic", "inp": {"words": o["words"], "via": via},
            "requests": [{"src": s, "n": n} for s, n in o["requests"]], "prng_same": o["prng_same"],
            "res": {"ok": True, "v": {"idx": indices(o["mnemonic"])}}, "o": tab.rows}


def _first_wallets(words):
    """(in a forked child) the first new mnemonics of this process, by both entry points"""
    from btc_hd_wallet import PaperWallet, bip39
    return [bip39.mnemonic_from_entropy_bits(words * 32 // 3), PaperWallet.new_wallet(mnemonic_length=words).mnemonic]


def run(ctx):
    rng = ctx.rng
    ctx.mc("Entropy", core.cfg_of("Entropy.cfg"), coverage=False, label="histories of Reseed / PrngDraw / New up to the step bound; OS symbols chosen by TLC")
    # negative tests: entropy from the seedable generator / one symbol short must violate EnoughBits
    st, tr = ctx.states, ctx.transitions
    neg = {}
    for dev in ("prng", "short"):
        r = ctx.mc("Entropy", core.cfg_of("Entropy.cfg").replace("Deviations = {}", 'Deviations = {"%s"}' % dev), expect_ok=False,
                   label="negative test: deviation '%s'" % dev)
        if not r.invariant_violated and not r.property_violated:
            raise core.MachineryError("negative test: deviation %s violated nothing" % dev)
        neg[dev] = (r.invariant_violated + r.property_violated)[0]
    ctx.states, ctx.transitions = st, tr
    ctx.notes["negative_tests"] = neg
    # unbounded histories: the invariants are INDUCTIVE (Apalache, spec/Apa_Entropy.tla = the same module, typed)
    from .. import tlc
    files = ["Apa_Entropy.tla", "Entropy.tla"]
    ind = {}
    for name, kw, want in (("Init => IndInv", dict(init="Init", inv="IndInv", length=0), "ok"),
                           ("IndInv /\\ Next => IndInv'", dict(init="IndInit", inv="IndInv", length=1), "ok"),
                           ("IndInv /\\ Next => prng unchanged by New", dict(init="IndInit", inv="PrngUntouched", length=1), "ok"),
                           ("negative: deviation 'short' breaks the step", dict(init="IndInit", inv="IndInv", length=1, next_="NextShort"), "violation")):
        verdict, tail, secs = tlc.run_apalache("Apa_Entropy", files, **kw)
        if verdict != want:
            raise core.MachineryError("Apalache step %r: expected %s, got %s\n%s" % (name, want, verdict, tail))
        ind[name] = {"result": verdict, "wall_s": round(secs, 1)}
    ctx.notes["inductive_invariant_apalache"] = ind
    # action labels
    ctx.mc("Entropy", core.cfg_of("Entropy.cfg").replace("MaxSteps = 3", "MaxSteps = 2"), coverage=True, label="action-label run")
    ctx.require_actions("Entropy", ["Reseed", "PrngDraw", "New"])
    cfg = core.cfg_of("Entropy.cfg").replace("MaxSteps = 3", "MaxSteps = 12")
    bs, n = simreplay.simulate("Entropy", cfg, 40 if ctx.quick else 600, 12, ctx.seed + 3, variables=())
    ctx.transitions += n
    events = []
    saved = pyrandom.getstate()
    try:
        for bi, b in enumerate(bs):
            if not any(s["action"] == "New" for s in b):
                continue
            stream = bytes(rng.randrange(256) for _ in range(257))
            lengths = [rng.choice([12, 15, 18, 21, 24]) for _ in range(6)]
            via = "wallet" if bi % 5 == 0 else "bip39"
            o1 = run_behaviour(b, stream, 0, 0, lengths, via)
            # the same history under every other reseed pattern: same OS answers -> same mnemonics
            o2 = run_behaviour(b, stream, 7 + bi, 3, lengths, via)
            ctx.traces += 1
            ctx.evaluations += len(o1)
            ctx.nontriv(("history", tuple(s["action"] for s in b[1:])))
            if [x["mnemonic"] for x in o1] != [x["mnemonic"] for x in o2]:
                ctx.violation("new-mnemonic", "depends-on-seedable-generator",
                              "the same OS bytes give different mnemonics under a different reseed pattern",
                              {"behaviour": b, "stream": list(stream), "lengths": lengths, "via": via})
            for o in o1:
                events.append(event_of(o, via, len(events)))
            if bi < 2:
                ctx.sample({"history": [[s["action"]] + s["args"] for s in b[1:]], "mnemonics": [o["mnemonic"][:40] + ".." for o in o1]})
        # every entropy bit is influenced by OS bits: flip every fed bit once
        for words in (12, 15, 18, 21, 24):
            for via in (("bip39",) if ctx.quick else ("bip39", "wallet")):
                stream = bytearray(rng.randrange(256) for _ in range(64))
                base = run_behaviour([{}, {"action": "New", "args": [words, 0]}], bytes(stream), lengths=[words], via=via)[0]
                nfed = len(base["fed"])
                e0 = decode(base["mnemonic"])
                covered = 0
                e0i = int.from_bytes(e0, "big")
                step = 1 if (via == "bip39" or nfed * 8 <= 64) else 8
                for bit in range(0, nfed * 8, step):
                    s2 = bytearray(stream)
                    s2[bit // 8] ^= 0x80 >> (bit % 8)
                    o = run_behaviour([{}, {"action": "New", "args": [words, 0]}], bytes(s2), lengths=[words], via=via)[0]
                    covered |= e0i ^ int.from_bytes(decode(o["mnemonic"]), "big")
                    ctx.evaluations += 1
                need = (1 << ENT[words]) - 1
                if step == 1 and covered != need:
                    missing = [ENT[words] - 1 - i for i in range(ENT[words]) if not (covered >> i) & 1]
                    ctx.violation("new-mnemonic", "entropy-bit-never-varies",
                                  "%d-word mnemonic: entropy bit(s) %s (0 = most significant) do not depend on any OS bit" % (words, missing[:6]),
                                  {"words": words, "via": via, "stream": list(stream)})
                ctx.nontriv(("bit-influence", words, via))
        # real OS source, the seedable generator reset to the same state before every call: no repeats
        seen = set()
        reps = 100 if ctx.quick else 2000
        for i in range(reps):
            pyrandom.seed(20240101)
            words = (12, 15, 18, 21, 24)[i % 5]
            with EntropyTap() as tap:
                m = new_mnemonic(words, "bip39" if i % 10 else "wallet")
            events.append(event_of({"words": words, "mnemonic": m, "requests": [(s, n) for s, n, b in tap.requests], "prng_same": True},
                                   "bip39", len(events)))
            if m in seen:
                ctx.violation("new-mnemonic", "repeats-under-same-prng-state",
                              "a mnemonic repeated although only the seedable generator was reset: %r" % m[:60], {"reps": reps})
                break
            seen.add(m)
        ctx.evaluations += reps
        ctx.nontriv(("fresh", reps))
        # illegal lengths are refused
        for w in (0, 11, 13, 25, 48):
            with EntropyTap() as tap:
                try:
                    m = new_mnemonic(w, "wallet")
                    ok = True
                except Exception:
                    ok = False
            ev = {"id": len(events), "act": "NewMnemonic", "inp": {"words": w, "via": "wallet"}, "requests": [], "prng_same": True,
                  "res": {"ok": ok, "v": {"idx": indices(m) if ok else []}}, "o": []}
            events.append(ev)
    finally:
        pyrandom.setstate(saved)
    # processes FORKED from one that already has the library loaded (and has made wallets): the first wallet of every
    # child, and the parent's next one, are all different - entropy is obtained when it is needed, not carried along
    import multiprocessing as mp
    for words in (12, 24):
        with mp.get_context("fork").Pool(6) as pool:
            kids = pool.map(_first_wallets, [words] * 6, chunksize=1)
        mine = _first_wallets(words)
        flat = [m for k in kids for m in k] + mine
        ctx.evaluations += len(flat)
        if len(set(flat)) != len(flat):
            dup = [m for m in set(flat) if flat.count(m) > 1][0]
            ctx.violation("new-mnemonic", "fresh-wallets-coincide-after-fork",
                          "processes forked from one parent produced the same %d-word mnemonic %r" % (words, dup[:50]), {"mode": "fork", "words": words})
    ctx.notes["forked_children_compared"] = 12
    # the operating system's source FAILS (NotImplementedError / OSError from os.urandom and random._urandom): there is no
    # other source of entropy, so no wallet and no mnemonic come out
    def failing(exc):
        def feed(n):
            raise exc("no entropy source")
        return feed
    from btc_hd_wallet import PaperWallet as _PW, bip39 as _b39
    for exc in (NotImplementedError, OSError, PermissionError):
        for words, how in ((12, "bip39"), (24, "wallet"), (18, "bip39")):
            with EntropyTap(feed=failing(exc)):
                try:
                    m_ = _b39.mnemonic_from_entropy_bits(words * 32 // 3) if how == "bip39" else _PW.new_wallet(mnemonic_length=words).mnemonic
                except BaseException:
                    m_ = None
            ctx.evaluations += 1
            if m_ is not None:
                ctx.violation("new-mnemonic", "wallet-although-os-source-failed",
                              "a %d-word mnemonic was produced although every request to the operating system's source raised %s: %r"
                              % (words, exc.__name__, m_[:40]), {"mode": "os-source-fails", "exc": exc.__name__})
                break
    # wallets created by several THREADS at once (with preemption injected into the mnemonic module): still all
    # different, none of them the all-zero entropy, every checksum valid
    import sys
    import threading
    import time as _time
    from btc_hd_wallet import PaperWallet, bip39
    from btc_hd_wallet.bip39_wordlist import word_list as _wl
    pos = {str(w_): i_ for i_, w_ in enumerate(_wl)}
    got, errs = [], []

    def local(frame, event, arg):
        if event == "line":
            _time.sleep(0.00002)
        return local

    def tracer(frame, event, arg):
        if event == "call" and frame.f_code.co_filename.endswith(("bip39.py", "base_wallet.py")) and "btc_hd_wallet" in frame.f_code.co_filename:
            return local
        return None

    def work(k):
        try:
            for j in range(10 if ctx.quick else 60):
                words = (12, 24, 18)[(k + j) % 3]
                got.append(bip39.mnemonic_from_entropy_bits(words * 32 // 3) if j % 2 else PaperWallet.new_wallet(mnemonic_length=words).mnemonic)
        except Exception as ex:
            errs.append(repr(ex))
    old_sw = sys.getswitchinterval()
    sys.setswitchinterval(1e-6)
    threading.settrace(tracer)
    try:
        ths = [threading.Thread(target=work, args=(k,)) for k in range(8)]
        for t_ in ths:
            t_.start()
        for t_ in ths:
            t_.join()
    finally:
        threading.settrace(None)
        sys.setswitchinterval(old_sw)
    ctx.evaluations += len(got)
    bad = None
    if errs:
        bad = "creating wallets from 8 threads raised %s" % errs[0]
    elif len(set(got)) != len(got):
        bad = "wallets created by concurrent threads coincide: %r" % [m_ for m_ in set(got) if got.count(m_) > 1][0][:50]
    else:
        for m_ in got:
            idx = [pos.get(w_, -1) for w_ in m_.split(" ")]
            if -1 in idx or len(idx) not in (12, 18, 24):
                bad = "a concurrently created mnemonic is not a sentence of the word list: %r" % m_[:50]
                break
            bits = "".join(bin(i_)[2:].zfill(11) for i_ in idx)
            ent_bits = len(idx) * 32 // 3
            ent = int(bits[:ent_bits], 2).to_bytes(ent_bits // 8, "big")
            if bits[ent_bits:] != bin(R.sha256(ent)[0])[2:].zfill(8)[:ent_bits // 32] or ent == bytes(len(ent)):
                bad = "a concurrently created mnemonic has a wrong checksum or all-zero entropy: %r" % m_[:50]
                break
    if bad:
        ctx.violation("new-mnemonic", "fresh-wallets-under-threads", bad, {"mode": "threads"})
    ctx.notes["wallets_created_by_concurrent_threads"] = len(got)
    rj = ctx.validate(MODULE, events, min_shard=100)
    core.report_rejects(ctx, events, rj, lambda e: "new %d-word mnemonic (%s), OS requests %s" % (
        e["inp"]["words"], e["inp"]["via"], [(r["src"], r["n"]) for r in e["requests"]]), lambda e, c: "new-mnemonic")

    def mut(e):
        import copy
        if e["requests"]:
            c = copy.deepcopy(e)
            c["requests"] = c["requests"][:-1]
            return c
        return None
    core.binding_selfcheck(ctx, MODULE, [e for e in events if e["id"] not in rj], mutate=mut)
    return ctx.finish(
        "model_checking",
        rule="bounded model: all histories of Reseed/PrngDraw/New up to the step bound (+2 negative-test deviations); replay: "
             "simulated histories on the real library with the OS source wrapped and FED chosen bytes, each run twice under "
             "different reseed patterns; every fed bit flipped once per length (influence on every entropy bit incl. the MSB); "
             "same-PRNG-state freshness with the real OS source; distinct = history shape / length / route",
        assumptions=["the exact mapping from OS bytes to entropy is not constrained (any use that lets every entropy bit vary passes)",
                     "collision probability of the freshness test is < 2^-100",
                     "inductive step (Apalache): start states are all IndInv states whose request/output sequences have at most 4 "
                     "elements (Gen bound); each clause of IndInv relates at most two outputs and one request (small-model argument)"],
        trusted_base=["TLC/SANY", "Apalache 0.58 + Z3 (inductive step)", "spec/Entropy.tla, Apa_Entropy.tla, Bip39.tla", "wrappers on os.urandom / random._urandom (harness/recorders.py)", "hashlib"],
        checker_cmd="./check C08 --tier " + ctx.tier)


def replay(ctx, path):
    print("replay: C08 violations are re-examined by re-running ./check C08 (the OS source is not reproducible)")
    return run(ctx)
