"""C15 - paranoia mode output contains no secret and leaves public data unchanged."""
from .. import core
from ..core import B, T
from .c06 import MNEMONICS

MODULE = "Trace_Keys"


def gen_inputs(ctx):
    rng, q = ctx.rng, ctx.quick
    out = []
    sources = []
    for m in MNEMONICS[:2 if q else 3]:
        for p in ["", "TREZOR", "1BvBMSEYstWetqTFn5Au4m4GFg7xJaNVN2", "bc1qw508d6qejxtdg4y5r3zarvary0c5xw7kv8f3t4", "correct horse battery staple", "pässwörd-ü", "1", "a", "0'", "m/", "bc1", "a.b", "q"]:
            sources.append({"mnemonic": T(m), "password": T(p)})
    for _ in range(3 if q else 40):
        sources.append({"seed": B(bytes(rng.randrange(256) for _ in range(rng.choice([16, 32, 64])))), "mnemonic": T(""), "password": T("")})
    for src in sources:
        for net in (("main", "test") if not q else (rng.choice(["main", "test"]),)):
            acct = rng.choice([0, 1, 2 ** 31 - 2])
            st = rng.choice([0, 0, 7, 2 ** 31 - 3])
            n = rng.choice([0, 1, 2, 3])
            out.append(("Paranoia", dict(src, net=net, account=acct, start=B(st.to_bytes(5, 'big')), end=B((st + n).to_bytes(5, 'big'))), ("paranoia", net, n, "seed" in src,
                                                                                                core.untext(src["password"]) != "")))
    # the same requests through the command line (--paranoia, to stdout and to --file), incl. empty intervals
    padded = [{"mnemonic": T(MNEMONICS[0]), "password": T(" padded passphrase \t")}, {"mnemonic": T(MNEMONICS[1]), "password": T("trailing blank ")}]
    for src in sources[:4] + padded + [s_ for s_ in sources if "seed" in s_ and len(s_["seed"]) == 64][:2]:
        for via in ("cli", "cli-file"):
            for st, n in ((0, 2), (4, 0), (7, 1)) if not q else ((rng.choice([0, 7]), rng.choice([1, 2])), (4, 0)):
                net = rng.choice(["main", "test"])
                out.append(("Paranoia", dict(src, net=net, account=rng.choice([0, 1, 5]), start=B(st.to_bytes(5, 'big')),
                                             end=B((st + n).to_bytes(5, 'big')), via=via), ("paranoia-" + via, net, n)))
    return out


def describe(ev):
    i = ev["inp"]
    if i.get("via", "api") != "api":
        return "python -m btc_hd_wallet --paranoia%s (%s wallet, account %d, interval (%d, %d))" % (
            " --file out.json" if i["via"] == "cli-file" else "", i["net"], i["account"],
            int.from_bytes(bytes(i["start"]), "big"), int.from_bytes(bytes(i["end"]), "big"))
    return "paranoia_mode(%s wallet.generate(%d, (%d, %d)))" % (i["net"], i["account"], int.from_bytes(bytes(i["start"]), "big"), int.from_bytes(bytes(i["end"]), "big"))


def mut(e):
    """a filtered tree into which one secret of the unfiltered tree was copied"""
    import copy
    if e["res"]["ok"] and e["filt"]:
        c = copy.deepcopy(e)
        sec = [l for l in c["full"] if l["role"] in ("wif", "prv")]
        if sec:
            # embedded in a longer string (as an output descriptor would carry it), so that only the
            # Base58-run scan can find it
            c["filt"].append({"ptr": T("/BIP44/extra/deep/0"), "role": "other", "s": T("wpkh([2d36e0eb/84'/0'/0']") + sec[0]["s"] + T("/0/*)")})
            return c
    return None


def run(ctx):
    cfg = core.cfg_of("PaperWallet.cfg")
    if ctx.quick:
        cfg = cfg.replace("MasterKeys = {1, 3, 5, 7, 9, 11}", "MasterKeys = {1, 5, 9}").replace("MinDerivable = 100", "MinDerivable = 20")
    ctx.mc("PaperWallet", cfg, label="whitelist filter implies NoSecretLeaf / NoSecretString / PublicPreserved, incl. a new secret or public field")
    events = core.build_events(ctx, gen_inputs(ctx) if ctx.quick else core.rounds(ctx, gen_inputs, 6))
    ctx.notes["filtered_leaves_classified"] = sum(len(e["filt"]) for e in events)
    for e in events[:1]:
        ctx.sample({"call": describe(e), "filtered_leaves": [[core.untext(l["ptr"]), core.untext(l["s"])] for l in e["filt"][:5]]})
    rj = ctx.validate(MODULE, events, min_shard=3)
    core.report_rejects(ctx, events, rj, describe)
    core.binding_selfcheck(ctx, MODULE, [e for e in events if e["id"] not in rj and bytes(e["inp"]["end"]) > bytes(e["inp"]["start"])], mutate=mut)
    return ctx.finish(
        "model_checking",
        rule="one case = paranoia_mode(generate(...)) of one wallet; EVERY string leaf at every nesting depth of the filtered "
             "output is decoded (Base58Check payload shapes of WIF / extended private keys, mnemonic-like word runs) and "
             "compared (equality and substring) with every secret string of the unfiltered output; public leaves must be "
             "identical with identical pointers; distinct = (network, rows, source, passphrase present, outcome)",
        assumptions=["empty-string secrets (empty passphrase) are exempt; the substring test applies to secrets of 8+ characters "
                     "(a passphrase that is literally part of a public string, e.g. 'm/44', necessarily 'occurs' in any output)",
                     "the command-line route (--paranoia to stdout and to --file) is judged by the same clauses here; C20 covers its "
                     "argument handling"],
        trusted_base=["TLC/SANY", "spec/PaperWallet.tla, Base58.tla, ExtKey.tla, Address.tla", "hashlib"],
        checker_cmd="./check C15 --tier " + ctx.tier)


def replay(ctx, path):
    return core.std_replay(ctx, path, MODULE)
