"""C10 - Base58Check is lossless and never accepts a string with a wrong checksum."""
from .. import acts, core, refprims as R
from ..core import B, T

MODULE = "Trace_Pure"
LOOKALIKE = "0OIl"


def gen_inputs(ctx):
    """-> list of (act, inp, class-key)"""
    rng = ctx.rng
    out = []
    q = ctx.quick
    # exhaustive small scope (equality of code and specification)
    for n in (1, 2):
        rngset = range(256 ** n)
        if q and n == 2:
            rngset = sorted(set(list(range(0, 65536, 257)) + list(range(0, 512)) +
                                [rng.randrange(65536) for _ in range(1500)]))
        for v in rngset:
            out.append(("B58Enc", B(v.to_bytes(n, "big")), ("enc-exh", n, v >> 8 == 0)))
    alpha = R.B58
    for n in (1, 2, 3):
        if n == 3 and q:
            strs = ["".join(rng.choice(alpha) for _ in range(3)) for _ in range(2500)] + \
                   ["11" + c for c in alpha] + ["1" + c + "1" for c in alpha] + [c + "11" for c in alpha]
        else:
            import itertools
            strs = ("".join(t) for t in itertools.product(alpha, repeat=n))
        for s in strs:
            out.append(("B58Dec", T(s), ("dec-exh", n, s[0] == "1")))
    # lengths 1..128 with 0..len leading zeros
    lens = list(range(1, 129))
    for n in lens:
        zs = range(0, n + 1) if not q else sorted({0, 1, n // 2, n - 1, n})
        for z in zs:
            if z > n:
                continue
            body = bytes(rng.randrange(1, 256) if i == 0 else rng.randrange(256) for i in range(n - z))
            b = b"\x00" * z + body
            out.append(("B58Enc", B(b), ("enc", n > 32, z == 0, z == n)))
            out.append(("B58Dec", T(R.b58enc(b)), ("dec", n > 32, z == 0, z == n)))
            if n <= 80 and (not q or n % 4 == 1):
                out.append(("B58EncCheck", B(b), ("enccheck", z == 0, z == n)))
    # digit-structured values: interior and trailing runs of the zero digit '1' (and of the top digit 'z') of every
    # length 1..12 at every alignment, powers and multiples of 58 and 256, sparse expansions - carries, limb and chunk
    # boundaries of any faster encoder/decoder live here and nowhere in random data
    def both(sv, key):
        out.append(("B58Dec", T(sv), ("dec-" + key[0],) + key[1:]))
        b = R.b58dec(sv)
        if b:
            out.append(("B58Enc", B(b), ("enc-" + key[0],) + key[1:]))
    for run in range(1, 13):
        for tail in (range(0, 13) if not q else (0, 1, 4, 5, 6, 10)):
            for dch in "1z":
                head = rng.choice(alpha[1:]) + "".join(rng.choice(alpha) for _ in range(rng.randrange(0, 3)))
                tl = "".join(rng.choice(alpha[1:]) for _ in range(tail))
                both(head + dch * run + tl, ("digitrun", dch, run >= 5, tail % 5 == 0))
    for k in range(1, 41 if not q else 24):
        for a in (1, 2, 57, 58 ** 2 + 1, rng.randrange(1, 58 ** 3)):
            for v in (a * 58 ** k, a * 58 ** k + rng.randrange(58), a * 58 ** k - 1):
                both(R.b58enc(v.to_bytes((v.bit_length() + 7) // 8, "big")), ("pow58", k % 5 == 0, a == 1))
        for v in (256 ** k, 256 ** k - 1, 256 ** k + 1):
            both(R.b58enc(v.to_bytes((v.bit_length() + 7) // 8, "big")), ("pow256", k > 8))
    for _ in range(150 if q else 3000):
        n = rng.randrange(4, 45)
        sv = rng.choice(alpha[1:]) + "".join(rng.choice(alpha) if rng.random() < 0.25 else "1" for _ in range(n))
        both(sv, ("sparse", n > 20))
    # look-alikes and non-alphabet characters in plain decode
    for ch in LOOKALIKE + " +/-_é一":
        for base in ("", "1", "abc", "1z"):
            for pos in range(len(base) + 1):
                out.append(("B58Dec", T(base[:pos] + ch + base[pos:]), ("dec-bad", ch in LOOKALIKE)))
    # white space and control characters (what an input line carries along, what a text pattern's '$' or a strip()
    # tolerates, what a translation table maps to zero): in front, behind, inside, and IN PLACE of the zero digit '1'
    CTRL = ["\n", "\r", "\r\n", " ", "\t", "\0", "\x0b", "\x0c", "\x1c", "\x1f", "\x7f", "\x85", "\u2028"]
    for base in ("1", "11", "abc1", "1abc", "a1c", "z1", "2NEpo7TZRRrLZSi2U1", "abc"):
        for c_ in CTRL:
            cands = {base + c_, c_ + base, base[:1] + c_ + base[1:]}
            cands |= {base[:j] + c_ + base[j + 1:] for j in range(len(base)) if base[j] == "1"}
            cands.add(base[:-1] + c_)
            for t in sorted(cands):
                out.append(("B58Dec", T(t), ("dec-control-char", base.endswith("1"))))
    # non-ASCII look-alikes of alphabet characters (fullwidth, mathematical, case-mapped: KELVIN SIGN -> k ...)
    import unicodedata
    for base in ("abc", "1z", "Kk2", "sS9"):
        for pos in range(len(base)):
            ch = base[pos]
            for cp in (0xff00 + ord(ch) - 0x20, 0x212a if ch in "Kk" else 0x17f if ch in "sS" else 0x2460):
                t = base[:pos] + chr(cp) + base[pos + 1:]
                out.append(("B58Dec", T(t), ("dec-bad-unicode", unicodedata.normalize("NFKC", chr(cp)).lower() == ch.lower())))
    for base in ("abc", "1z", "2NEpo7TZRRrLZSi2U"):
        for ins in ("\u200b", "\u00a0", "\ufeff", "\u00e9", "\U0001f600"):
            for pos in (0, 1, len(base)):
                out.append(("B58Dec", T(base[:pos] + ins + base[pos:]), ("dec-ins-unicode",)))
    # checksummed decoder: mutations of valid encodings
    valids = []
    payload_specs = [(0x00, 20), (0x05, 20), (0x6f, 20), (0xc4, 20), (0x80, 32), (0x80, 33), (0xef, 33),
                     (0x04, 77), (0x00, 0), (0x00, 1), (0x00, 3)]
    for ver, n in payload_specs:
        for k in range(1 if q else 3):
            body = bytes([ver]) + bytes(rng.randrange(256) for _ in range(n))
            if k == 1:
                body = bytes([ver]) + b"\x00" * n
            valids.append(R.b58check_enc(body))
    valids.append(R.b58check_enc(b""))              # empty body, checksum only
    valids.append(R.b58check_enc(b"\x00\x00\x00"))
    # valid strings that END in the zero digit '1' (searched: 1 in 58) - the place where a dropped, ignored or
    # zero-mapped trailing character changes nothing in the number
    found1 = 0
    for t_ in range(4000):
        body = bytes([rng.choice([0x00, 0x80, 0x05])]) + bytes(rng.randrange(256) for _ in range(rng.choice([20, 32, 33])))
        e_ = R.b58check_enc(body)
        if e_.endswith("1"):
            valids.append(e_)
            found1 += 1
            if found1 >= (2 if q else 6):
                break
    ctx.notes["checked_strings_ending_in_zero_digit"] = found1
    alpha_plus = alpha + LOOKALIKE
    for s in valids:
        out.append(("B58DecCheck", T(s), ("chk-valid", len(s) > 40)))
        for c_ in (CTRL if (not q or s.endswith("1")) else rng.sample(CTRL, 3) + ["\n"]):
            cands = {s + c_, c_ + s, s[:-1] + c_, s[:len(s) // 2] + c_ + s[len(s) // 2:]}
            ones = [j for j in range(len(s)) if s[j] == "1"]
            cands |= {s[:j] + c_ + s[j + 1:] for j in (ones if not q else ones[:1] + ones[-2:])}
            for t in sorted(cands):
                out.append(("B58DecCheck", T(t), ("chk-control-char", s.endswith("1"), t.endswith(c_), t.startswith(c_))))
        positions = range(len(s))
        nsub = len(alpha_plus)
        full = (not q) and len(s) <= 40
        for p in positions:
            if full:
                subs = alpha_plus
            else:
                subs = [rng.choice(alpha) for _ in range(2 if q else 6)] + [rng.choice(LOOKALIKE)]
            if s[p] in "1o":
                subs = list(subs) + list(LOOKALIKE)        # the look-alikes of exactly this character
            for ch in subs:
                if ch != s[p]:
                    out.append(("B58DecCheck", T(s[:p] + ch + s[p + 1:]),
                                ("chk-sub", ch in LOOKALIKE, p == 0, p == len(s) - 1)))
        for p in (list(range(len(s) + 1)) if not q else sorted({0, 1, len(s) // 2, len(s)})):
            out.append(("B58DecCheck", T(s[:p] + rng.choice(alpha) + s[p:]), ("chk-ins", p == 0)))
        for p in (list(range(len(s))) if not q else sorted({0, len(s) // 2, len(s) - 1})):
            out.append(("B58DecCheck", T(s[:p] + s[p + 1:]), ("chk-del", p == 0)))
        for k in (1, 2, 5):
            out.append(("B58DecCheck", T("1" * k + s), ("chk-1prefix", k)))
        # a non-ASCII character INSERTED (zero-width space, no-break space, BOM, accented / fullwidth / Cyrillic letter,
        # emoji): a decoder that drops what it cannot map would see the valid string again
        for p in (rng.sample(range(len(s) + 1), min(len(s) + 1, 3 if q else 10))):
            ins = rng.choice(["\u200b", "\u00a0", "\ufeff", "\u00e9", "\uff21", "\u0410", "\U0001f600", "\u2028", "\u00ad"])
            out.append(("B58DecCheck", T(s[:p] + ins + s[p:]), ("chk-ins-unicode", p == 0, p == len(s))))
        # one character replaced by its fullwidth twin / a case-mapped relative
        for p in (rng.sample(range(len(s)), min(len(s), 4 if q else 12))):
            tw = chr(0xff00 + ord(s[p]) - 0x20)
            out.append(("B58DecCheck", T(s[:p] + tw + s[p + 1:]), ("chk-unicode-twin",)))
            if s[p] in "kK":
                out.append(("B58DecCheck", T(s[:p] + "\u212a" + s[p + 1:]), ("chk-unicode-kelvin",)))
        for k in range(0, 7):
            out.append(("B58DecCheck", T(s[:k]), ("chk-trunc", k)))
        # swap two characters, double substitution
        for _ in range(4 if q else 40):
            i, j = rng.randrange(len(s)), rng.randrange(len(s))
            t = list(s)
            t[i], t[j] = t[j], t[i]
            out.append(("B58DecCheck", T("".join(t)), ("chk-swap",)))
            t = list(s)
            t[i] = rng.choice(alpha)
            t[j] = rng.choice(alpha)
            out.append(("B58DecCheck", T("".join(t)), ("chk-sub2",)))
    # long strings (hundreds of characters): no table of weights, no recursion depth, no fixed width gives out
    for n in ((400, 520) if q else (380, 400, 512, 520, 700, 1000)):
        bl = bytes(rng.randrange(1, 256) for _ in range(n))
        out.append(("B58Enc", B(bl), ("enc-long", n)))
        out.append(("B58Dec", T(R.b58enc(bl)), ("dec-long", n)))
    # long all-zero payloads (every zero byte is a leading zero): the boundary between payload and checksum must not
    # depend on how many non-zero bytes are left (the checksum of 193 zero bytes starts with a zero byte itself)
    for n in (range(129, 301) if not q else (129, 160, 192, 193, 194, 255, 256, 300)):
        sz = R.b58check_enc(bytes(n))
        out.append(("B58DecCheck", T(sz), ("chk-long-zero", n == 193)))
        out.append(("B58DecCheck", T(sz[1:]), ("chk-long-zero-one-deleted", n == 193)))
        out.append(("B58EncCheck", B(bytes(n)), ("enccheck-long-zero", n == 193)))
    # every two-character string, and the strings that decode to a proper PREFIX of the checksum of the empty payload
    # (or of a one-byte payload): too short to hold a checksum, whatever they decode to
    if not q:
        for a in alpha:
            for b in alpha:
                out.append(("B58DecCheck", T(a + b), ("chk-all-2-char",)))
    for body in [b""] + [bytes([x]) for x in (0, 1, 0x80, 0xff)]:
        full = body + R.hash256(body)[:4]
        for cut in range(1, len(full)):
            if cut < 4 or cut < len(full):
                out.append(("B58DecCheck", T(R.b58enc(full[:cut]) or "1"), ("chk-prefix-of-a-valid-record", len(body), cut)))
            out.append(("B58DecCheck", T(R.b58enc(full[len(body):][:cut]) or "1"), ("chk-prefix-of-checksum-only", len(body), cut)))
    # strings shorter than a checksum, over the alphabet
    for n in range(1, 6):
        for _ in range(10 if q else 200):
            out.append(("B58DecCheck", T("".join(rng.choice(alpha) for _ in range(n))), ("chk-short", n)))
    # random valid-looking strings whose checksum is right only by 2^-32 chance
    for _ in range(100 if q else 3000):
        n = rng.randrange(6, 60)
        out.append(("B58DecCheck", T("".join(rng.choice(alpha) for _ in range(n))), ("chk-random", n > 30)))
    return out


def classify(ev, clause):
    return ev["act"], clause


def run(ctx):
    cfg = "CONSTANTS MaxB = 2\nMaxS = %d\n" % (2 if ctx.quick else 3) + \
        "\n".join(l for l in core.cfg_of("MC_Base58.cfg").splitlines() if not l.startswith(("CONSTANTS", "MaxS")))
    ctx.mc("MC_Base58", cfg, label="exhaustive small scope on the real alphabet")
    inputs = gen_inputs(ctx)
    events = []
    for i, (a, inp, key) in enumerate(inputs):
        ev = acts.make(a, inp, i)
        events.append(ev)
        ctx.nontriv((a,) + tuple(key) + (ev["res"]["ok"],))
    for e in events[:2] + events[-2:]:
        ctx.sample({k: e[k] for k in ("act", "inp", "res")})
    events += core.suite_events(ctx, ["tests/test_helper.py", "tests/test_keys.py", "tests/test_bip32.py", "tests/test_bip85.py"],
                                ("B58Enc", "B58Dec", "B58EncCheck", "B58DecCheck"), len(events), limit=200 if ctx.quick else 4000)
    rj = ctx.validate(MODULE, events)
    for eid, clause in sorted(rj.items()):
        ev = events[eid]
        cs, cl = classify(ev, clause)
        ctx.violation(cs, cl, "%s(%r) -> %r : %s" % (ev["act"], core.untext(ev["inp"]) if ev["act"].startswith("B58Dec") else bytes(ev["inp"]).hex(), ev["res"], clause),
                      {"act": ev["act"], "inp": ev["inp"], "clause": clause})
    core.binding_selfcheck(ctx, MODULE, [e for e in events if e["act"] in ("B58Enc", "B58DecCheck") and e["res"]["ok"]
                                         and len(e["res"]["v"]) > 2 and e["id"] not in rj][-400:])
    ctx.exhaustive = not ctx.quick
    return ctx.finish(
        "model_checking",
        rule="one case = one call of encode_base58/decode_base58/*_checksum; distinct = (action, input class: "
             "length band, leading-zero pattern, mutation kind/position class, outcome); exhaustive part: all byte "
             "strings of length 1..2 and all alphabet strings of length 1..3 (thorough)",
        assumptions=["Hash256 values in the oracle table come from hashlib (OpenSSL)",
                     "the empty string/byte string is outside the property (non-empty inputs)"],
        trusted_base=["TLC/SANY", "spec/Base58.tla, spec/Bytes.tla", "hashlib.sha256", "harness projection (acts.py)"],
        checker_cmd="./check C10 --tier " + ctx.tier)


def replay(ctx, path):
    rp = core.load_replay(path)
    ev = acts.make(rp["act"], rp["inp"], 0)
    rj = ctx.validate(MODULE, [ev], shards=1)
    if rj:
        print("VIOLATION property=C10 replay=%s  # %s" % (path, rj[0]))
        return 1
    print("replay: event accepted by the specification")
    return 0
