"""C17 - path strings are honoured component by component or rejected."""
import itertools

from .. import core
from ..core import T

MODULE = "Trace_Pure"
W_MAIN = "main:" + "5e" * 64
W_TEST = "test:" + "a7" * 32

IDX = [0, 1, 2 ** 31 - 1, 2 ** 31, 2 ** 32 - 1]


def spell(v, style):
    if v >= 2 ** 31 and style != "plain":
        return str(v - 2 ** 31) + ("'" if style == "tick" else "h")
    return str(v)


REJ = ["4294967296", "2147483648'", "2147483648h", "4294967295'", "-1", "-1'", "-1h", "-2147483648'", "x", "1x", "'",
       "h", "1''", "0x1", "--1", "1-", "1H", "m", "99999999999999999999", "1.0", "1e3", "", "0'h", "²"[:0] + "a'", "1 1", "4 4'", "1' ", "1'\n", "1__0", "_1", "1_", "2 5h", "+ 1", "1+"]
EITHER = ["+1", " 1", "1_0", "-0", "-0'", "1 '", "1 ", "\t7", "٣", "１", "+2147483647'", "4_294_967_295", " 00 "]
OTHER_OK = ["007", "007'", "0000000000001", "00'"]
# every token of length 0..2 over a small alphabet except the two legal roots, and some longer ones
_RA = "mMxn0' h"
BADROOTS = sorted({a + b for a in [""] + list(_RA) for b in [""] + list(_RA)} - {"m", "M"}) + \
    ["mm", "/m", "mMm", "master", "m44'", "M0", "\uff4d", "\u217f", "m\u200b"]


def gen_inputs(ctx):
    rng, q = ctx.rng, ctx.quick
    parse, bypath = [], []
    # --- the MC_Path grammar, enumerated: every list of length 0..5 over five index values, three spellings, both roots
    for n in range(0, 6):
        combos = itertools.product(IDX, repeat=n)
        if q and n >= 4:
            combos = [tuple(rng.choice(IDX) for _ in range(n)) for _ in range(150)]
        for lst in combos:
            for style in ("plain", "tick", "h"):
                if q and n >= 3 and rng.random() < 0.5:
                    continue
                for root in ("m", "M"):
                    if q and n >= 2 and root == "M" and rng.random() < 0.7:
                        continue
                    s = "/".join([root] + [spell(v, style) for v in lst])
                    parse.append((s, ("list", n, style, root)))
                    if rng.random() < (0.02 if q else 0.05) or n <= 1:
                        bypath.append((s, ("list", n, style)))
    # --- single fault at every position
    base = ["0", "1'"]
    for n in range(1, 6):
        for pos in range(n):
            for f in REJ + EITHER + OTHER_OK:
                for _ in range(1 if q else 3):
                    toks = [rng.choice(base) for _ in range(n)]
                    toks[pos] = f
                    s = "/".join(["m"] + toks)
                    cls = "rej" if f in REJ else "either" if f in EITHER else "ok"
                    parse.append((s, ("fault", cls, f, pos == n - 1)))
                    bypath.append((s, ("fault", cls, f, pos == n - 1)))
    # blanks fused into numerals at every position of an otherwise ordinary path
    for base_toks in (["44'", "0'", "0'", "0", "10"], ["1", "1"], ["0'", "25h"]):
        for pos in range(len(base_toks)):
            t = base_toks[pos]
            if len(t.rstrip("'h")) >= 2:
                toks = list(base_toks)
                toks[pos] = t[0] + " " + t[1:]
                s = "/".join(["m"] + toks)
                parse.append((s, ("fused-blank", pos)))
                bypath.append((s, ("fused-blank", pos)))
    # more than one hardened marker on a component
    Q = chr(39)
    for tok in ("44" + Q * 2, "44h" + Q, "0" + Q + "h", "5hh", "7" + Q * 3, "0" + Q * 2, "1h" + Q + "h", Q, "h", Q * 2):
        for pre, post in (([], []), (["0"], []), (["1" + Q], ["2"])):
            s = "/".join(["m"] + pre + [tok] + post)
            parse.append((s, ("double-marker", tok)))
            bypath.append((s, ("double-marker", tok)))
    for s in ("m /1", "m\t/0'", "m/1/2h\n", " m/1", "m/1 ", "m/ 1", "m/1/ 2 /3"):
        parse.append((s, ("blank-placement", s)))
        bypath.append((s, ("blank-placement", s)))
    for r in BADROOTS:
        for tail in ([], ["0"], ["0", "1'"]):
            s = "/".join([r] + tail)
            parse.append((s, ("badroot", r)))
            bypath.append((s, ("badroot", r)))
    # trailing slashes
    for s in ("m/", "m//", "m/0/", "m/0'/1/", "M/", "m/0//1", "m//0", "m/0/1/2/3/4/", "m/0/1/2/3/4//"):
        parse.append((s, ("slashes", s)))
        bypath.append((s, ("slashes", s)))
    # --- deeper than five levels (6..12), with and without faults in the tail
    for n in range(6, 13):
        for _ in range(6 if q else 40):
            lst = [rng.choice([0, 1, 5, 2 ** 31, 2 ** 31 + 7, rng.randrange(2 ** 32)]) for _ in range(n)]
            s = "/".join(["m"] + [spell(v, rng.choice(["tick", "h"])) for v in lst])
            parse.append((s, ("deep", n)))
            bypath.append((s, ("deep", n)))
        for f in ("x", "-1'", "", "4294967296", "+1"):
            toks = ["0", "1'", "2", "3", "4"] + ["5"] * (n - 6) + [f]
            rng.shuffle(toks[5:])
            s = "/".join(["m"] + toks)
            parse.append((s, ("deep-fault", n, f)))
            bypath.append((s, ("deep-fault", n, f)))
    # one fault at EVERY position of deep paths (the levels where an implementation that works in groups of five
    # changes group are positions 5, 10): empty token, junk, negative, oversized, oversized hardened
    for n in ((6, 7, 10, 11, 12) if q else range(6, 13)):
        for pos in range(n):
            for f in (("",) if q and pos not in (4, 5, 9, 10) else ("", "x", "-1", "4294967296", "2147483648'")):
                toks = [str((7 * j + 1) % 50) + ("'" if j % 3 == 0 else "") for j in range(n)]
                toks[pos] = f
                s = "/".join(["m"] + toks)
                parse.append((s, ("deep-fault-at", n, pos, f)))
                bypath.append((s, ("deep-fault-at", n, pos, f)))
    # --- random index lists over the full 32-bit range and random faulty numerals
    for _ in range(300 if q else 8000):
        n = rng.randrange(0, 6)
        lst = [rng.choice([rng.randrange(2 ** 32), rng.randrange(2 ** 31), rng.randrange(2 ** 31, 2 ** 32),
                           rng.randrange(0, 100)]) for _ in range(n)]
        style = rng.choice(["plain", "tick", "h"])
        s = "/".join([rng.choice("mM")] + [spell(v, style) for v in lst])
        parse.append((s, ("rand", n, style)))
        if rng.random() < 0.15:
            bypath.append((s, ("rand", n, style)))
    for _ in range(150 if q else 3000):
        n = rng.randrange(1, 6)
        toks = [str(rng.randrange(2 ** 31)) + rng.choice(["", "'", "h"]) for _ in range(n)]
        pos = rng.randrange(n)
        v = rng.choice([2 ** 32 + rng.randrange(10 ** 6), -rng.randrange(1, 2 ** 33), 2 ** 31 + rng.randrange(2 ** 31)])
        mark = rng.choice(["'", "h"]) if (v >= 2 ** 32 or v < 0) and rng.random() < 0.5 else \
            ("'" if 2 ** 31 <= v < 2 ** 32 else "")
        toks[pos] = str(v) + mark
        s = "/".join(["m"] + toks)
        parse.append((s, ("rand-fault", v < 0, bool(mark))))
        bypath.append((s, ("rand-fault", v < 0, bool(mark))))
    out = [("PathParse", T(s), key) for s, key in parse]
    for i, (s, key) in enumerate(bypath):
        out.append(("ByPath", {"path": T(s), "wallet": W_MAIN if i % 3 else W_TEST}, key))
    # wallets imported from an ACCOUNT-level extended private key (depth 3, child number 7'): a path is applied to the
    # wallet's own root component by component - the absolute path the original wallet printed is just another path here
    from .. import refprims as R0, refwallet as W0
    tab0 = R0.Table()
    for flav, net in (("bip84", "main"), ("bip44", "test"), ("bip49", "main")):
        rn = W0.derive(tab0, W0.master(tab0, bytes(range(32)), net), [84 + 2 ** 31, 2 ** 31, 7 + 2 ** 31])
        xs = W0.ser(tab0, rn, W0.VERSIONS[("prv", net, flav)], True)
        for s in ("m/84'/0'/7'/0/5", "m/44'/1'/7'/1", "m/84'/0'/7'", "m/0/5", "m/7'/0/5", "m/84'/0'/7'/0", "m/49'/0'/7'/0/0", "m/0'/0'/7'/3/4", "m"):
            out.append(("ByPath", {"path": T(s), "wallet": "xkey:" + xs}, ("bypath-on-imported-account-key", s.count("/"))))
    return out


def describe(ev):
    if ev["act"] == "PathParse":
        return "Bip32Path.parse(%r)" % core.untext(ev["inp"])
    return "wallet%s.by_path(%r)" % (" imported from " + ev["inp"]["wallet"][5:9] + ".. (depth 3)" if ev["inp"]["wallet"].startswith("xkey:") else "",
                                      core.untext(ev["inp"]["path"]))


def site(ev, clause):
    return "Bip32Path.parse" if ev["act"] == "PathParse" else "BaseWallet.by_path"


def run(ctx):
    cfg = core.cfg_of("MC_Path.cfg")
    if ctx.quick:
        cfg = cfg.replace("MaxLen = 5", "MaxLen = 4").replace("MaxDeep = 9", "MaxDeep = 7")
    ctx.mc("MC_Path", cfg, coverage=True,
           label="growing-path machine: lists 0..5 x spellings x roots, single faults, deep paths")
    ctx.require_actions("MC_Path", ["AppendOk", "AppendFault", "AppendBadRoot", "AppendDeep"])
    events = core.build_events(ctx, gen_inputs(ctx) if ctx.quick else core.rounds(ctx, gen_inputs, 8))
    events += core.suite_events(ctx, ["tests/test_wallet_utils.py", "tests/test_base_wallet.py", "tests/test_bip85.py"],
                                ("PathParse",), len(events))
    for e in events[:1] + events[2000:2001] + events[-2:]:
        ctx.sample({"call": describe(e), "res": str(e["res"])[:300]})
    rj = ctx.validate(MODULE, events)
    core.report_rejects(ctx, events, rj, describe, site)
    def mut(e):
        import copy
        if e["act"] == "PathParse" and e["res"]["ok"] and e["res"]["v"]["list"] and len(e["res"]["v"]["list"]) <= 5 \
                and all(len(x) == 4 for x in e["res"]["v"]["list"]):
            c = copy.deepcopy(e)
            c["res"]["v"]["list"][-1][3] ^= 1
            return c
        return None
    core.binding_selfcheck(ctx, MODULE, [e for e in events if e["id"] not in rj and ctx.keys[e["id"]][0] in ("list", "rand")][200:], mutate=mut)
    ctx.exhaustive = not ctx.quick
    return ctx.finish(
        "model_checking",
        rule="one case = one call of Bip32Path.parse(s) (list, str, root) or wallet.by_path(s) (node vs iterated ckd on a "
             "fresh master); strings enumerate the MC_Path grammar (all lists 0..5 over {0,1,2^31-1,2^31,2^32-1} x 3 "
             "spellings x 2 roots in thorough), one fault at every position, bad roots, 6..12 levels, random 32-bit "
             "lists and random faulty numerals; distinct = (family, length, spelling/fault token, outcome)",
        assumptions=["spellings the statement is silent on (+1, blanks, 1_0, -0, non-ASCII digits, trailing '/') are not judged",
                     "a malformed path may be refused at parse or by the derivation it feeds"],
        trusted_base=["TLC/SANY", "spec/PathGrammar.tla", "iterated ckd of the implementation (C01) as the by-path reference",
                      "harness projection"],
        checker_cmd="./check C17 --tier " + ctx.tier)


def replay(ctx, path):
    return core.std_replay(ctx, path, MODULE)
