"""C16 - mainnet and testnet artefacts never mix."""
from .. import core, refprims as R, refwallet as W
from ..core import B, T
from .c01 import idx4
from . import c13

MODULE = "Trace_Keys"
H = 2 ** 31


def gen_inputs(ctx):
    rng, q = ctx.rng, ctx.quick
    out = []
    seeds = ["5e" * 64, "00" * 64] + [bytes(rng.randrange(256) for _ in range(64)).hex() for _ in range(1 if q else 8)]
    accounts = [0, 1, 2 ** 31 - 2] + [rng.randrange(2 ** 31 - 1)]
    paths = [[], [0], [H], [44 + H], [44 + H, H], [44 + H, 1 + H, H], [49 + H, H, 3 + H, 0, 1], [84 + H, 1 + H, H, 1, 9],
             [84 + H, H, H, 0, 2 ** 31 - 1], [7, 8 + H, 9], [2 ** 32 - 1, 0],
             # purposes other than 44/49/84, coin slots that name the OTHER network, shallow and deep nodes
             [86 + H, H, H], [48 + H, 1 + H, H, 2 + H], [45 + H], [H, H], [49 + H, 1 + H], [84 + H, H], [44, 1, 0], [49 + H, 2 + H, H, 0, 0]]
    for net in ("main", "test"):
        for seed in seeds:
            for acct in (accounts if not q else [rng.choice(accounts)]):
                st = rng.choice([0, 5, 2 ** 31 - 3])
                out.append(("Emit", {"net": net, "seed": seed, "what": "generate", "account": acct, "interval": [st, st + 2]},
                            ("generate", net, acct == 0)))
            out.append(("Emit", {"net": net, "seed": seed, "what": "nodes", "paths": [[idx4(i) for i in p] for p in paths]},
                        ("nodes", net)))
            out.append(("Emit", {"net": net, "seed": seed, "what": "wasabi"}, ("wasabi", net)))
            out.append(("Emit", {"net": net, "seed": seed, "what": "foreign-node"}, ("foreign-node", net)))
            out.append(("Emit", {"net": net, "seed": seed, "what": "wasabi", "companion": True}, ("wasabi-with-companion-view", net)))
            out.append(("Emit", {"net": net, "seed": seed, "what": "nodes", "companion": True,
                                 "paths": [[idx4(i) for i in p] for p in paths[:6]]}, ("nodes-with-companion-view", net)))
            out.append(("Emit", {"net": net, "seed": seed, "what": "generator", "paths": [[idx4(i) for i in rng.choice(paths[3:9])]]},
                        ("generator", net)))
    # wallets re-imported from each of the 12 version prefixes; they take their network from the prefix
    tab = R.Table()
    for t in sorted(W.VERSIONS):
        for _ in range(1 if q else 3):
            seed = bytes(rng.randrange(256) for _ in range(32))
            rn = W.master(tab, seed, t[1])
            rn = W.derive(tab, rn, [rng.randrange(2 ** 32) for _ in range(rng.randrange(0, 3))])
            s = W.ser(tab, rn, W.VERSIONS[t], t[0] == "prv")
            sub = [[1, 2], [0]] if t[0] == "pub" else [[H], [3, 4 + H]]
            out.append(("Emit", {"net": t[1], "import": T(s), "what": "nodes", "paths": [[idx4(i) for i in p] for p in sub]},
                        ("import", t)))
            if t[0] == "prv" and rn.depth == 0:
                out.append(("Emit", {"net": t[1], "import": T(s), "what": "generate", "account": 3, "interval": [1, 2]},
                            ("import-generate", t)))
    return out


def describe(ev):
    i = ev["inp"]
    return "%s wallet (%s): %s -> %d leaves" % (i["net"], "imported" if i.get("import") else "seed", i["what"], len(ev.get("leaves", [])))


def mut(e):
    import copy
    if e["res"]["ok"] and e.get("leaves"):
        c = copy.deepcopy(e)
        c["inp"]["net"] = "test" if c["inp"]["net"] == "main" else "main"
        return c
    return None


def run(ctx):
    c13.model_runs(ctx)
    c13.negative_tests(ctx, [("net", "NoMix")])
    bs = c13.behaviours(ctx, 100 if ctx.quick else 2000, 16)
    c13.replay_all(ctx, bs, "network", threaded_groups=0)
    c13.cold_start(ctx, "network")
    events = core.build_events(ctx, gen_inputs(ctx))
    nleaves = sum(len(e.get("leaves", [])) for e in events)
    ctx.notes["leaves_classified"] = nleaves
    ctx.notes["exempt_leaves_bip85"] = sum(e.get("exempt_leaves", 0) for e in events)
    for e in events[:1] + events[-1:]:
        ctx.sample({"call": describe(e), "first_leaves": [[l["role"], core.untext(l["s"])] for l in e.get("leaves", [])[:4]]})
    rj = ctx.validate(MODULE, events, min_shard=4)
    core.report_rejects(ctx, events, rj, describe)
    core.binding_selfcheck(ctx, MODULE, [e for e in events if e["id"] not in rj], mutate=mut)
    return ctx.finish(
        "model_checking",
        rule="bounded model: NoMix / ImportNet over all histories (+ negative test: a child taking the class-default network); "
             "trace validation: one case = every network-tagged string leaf of one API family of one wallet (generate rows and "
             "account keys, node keys at depth 0..5, five address kinds, WIFs, Wasabi export, generators, wallets re-imported "
             "from each of the 12 prefixes), each leaf classified by DECODING it with the specification's Base58Check/Bech32/"
             "version-table operators; distinct = (family, network, version)",
        assumptions=["the BIP85 block is exempt: BIP85 defines its WIF/xprv outputs network-free (counted as exempt_leaves_bip85)"],
        trusted_base=["TLC/SANY", "spec/Address.tla, ExtKey.tla, Base58.tla, Bech32.tla, PathGrammar.tla, HDWallet.tla", "hashlib"],
        checker_cmd="./check C16 --tier " + ctx.tier)


def replay(ctx, path):
    rp = core.load_replay(path)
    if "behaviour" in rp or "behaviours" in rp or rp.get("mode") in ("cold-start", "stress"):
        return c13.replay(ctx, path)
    return core.std_replay(ctx, path, MODULE)
