"""C05 - every address is the standard encoding of the right script on the right network."""
from .. import core, refprims as R
from ..core import B

MODULE = "Trace_Keys"
KINDS = ["p2pkh", "p2wpkh", "p2sh_p2wpkh", "p2wsh", "p2sh_p2wsh"]


def gen_inputs(ctx):
    rng, q = ctx.rng, ctx.quick
    out = []
    keys = []
    # both parities, x with leading zero bytes (searched among small multiples), extremes, random
    found = {"lz1": 0, "lz2": 0}
    j = 1
    limit = 3000 if q else 120000
    while j < limit and (found["lz1"] < 3 or found["lz2"] < 1):
        pt = R.pt_mul(j) if j < 50 else None
        if pt is None:
            # walk by repeated addition (cheap)
            cur = R.pt_add(cur, R.G)
            pt = cur
        else:
            cur = pt
        if pt[0] < (1 << 240) and found["lz2"] < 1:
            keys.append((pt, "x-lz2"))
            found["lz2"] += 1
        elif pt[0] < (1 << 248) and found["lz1"] < 3:
            keys.append((pt, "x-lz1"))
            found["lz1"] += 1
        j += 1
    ctx.notes["leading_zero_x_keys_found"] = dict(found, searched=j)
    # keys whose HASH160 starts with a zero byte (mainnet P2PKH payload then starts 00 00: two leading '1's),
    # for the compressed and for the uncompressed encoding - searched along G, 2G, 3G, ...
    hz = {"h160c-lz": 0, "h160u-lz": 0}
    want = 2 if q else 12
    cur, j = None, 0
    while j < (4000 if q else 40000) and min(hz.values()) < want:
        cur = R.pt_add(cur, R.G)
        j += 1
        if R.hash160(R.sec(cur, True))[0] == 0 and hz["h160c-lz"] < want:
            keys.append((cur, "h160c-lz"))
            hz["h160c-lz"] += 1
        elif R.hash160(R.sec(cur, False))[0] == 0 and hz["h160u-lz"] < want:
            keys.append((cur, "h160u-lz"))
            hz["h160u-lz"] += 1
    ctx.notes["leading_zero_hash160_keys_found"] = dict(hz, searched=j)
    for k in (1, 2, 3, R.N - 1, R.N - 2):
        keys.append((R.pt_mul(k), "small/extreme"))
    for _ in range(6 if q else 400):
        keys.append((R.pt_mul(rng.randrange(1, R.N)), "rand"))
    for pt, kc in keys:
        K = B(R.sec(pt, True))
        for net in ("main", "test"):
            for kind in KINDS:
                out.append(("Addr", {"kind": kind, "net": net, "K": K, "via": "wallet", "compressed": True},
                            ("wallet", kind, net, pt[1] & 1, kc)))
            if kc in ("small/extreme", "h160c-lz") or rng.random() < 0.15:
                for kind in KINDS:
                    out.append(("Addr", {"kind": kind, "net": net, "K": K, "via": "wallet", "compressed": True,
                                         "node_net": "test" if net == "main" else "main"}, ("wallet-foreign-node", kind, net)))
            for kind in ("p2pkh", "p2wpkh"):
                for comp in (True, False):
                    if kind == "p2wpkh" and not comp and q:
                        continue
                    out.append(("Addr", {"kind": kind, "net": net, "K": K, "via": "pubkey", "compressed": comp},
                                ("pubkey", kind, net, comp, kc)))
    # all five kinds for the ROOT of a wallet imported from an extended private key of each private flavour (a parsed
    # private node keeps 00 || k as its raw key), and for a child of it
    from .. import refwallet as W
    tabx = R.Table()
    for t in sorted(W.VERSIONS):
        if t[0] != "prv" or (q and t[2] == "bip49"):
            continue
        rn = W.master(tabx, bytes(rng.randrange(256) for _ in range(32)), t[1])
        xs = W.ser(tabx, rn, W.VERSIONS[t], True)
        for kind in KINDS:
            out.append(("Addr", {"kind": kind, "net": t[1], "K": B(rn.K), "via": "imported-root", "compressed": True, "xprv": [ord(c) for c in xs]},
                        ("imported-root", kind, t[1], t[2])))
    # request sequences on one key object (both orders of compressed / uncompressed, both kinds)
    for pt, kc in keys[:6 if q else 40]:
        K = B(R.sec(pt, True))
        for net in ("main", "test"):
            steps = [{"compressed": c, "kind": k} for c, k in ((True, "p2pkh"), (False, "p2pkh"), (True, "p2wpkh"), (False, "p2pkh"), (True, "p2pkh"))]
            out.append(("AddrSeq", {"K": K, "net": net, "steps": steps}, ("addrseq", "compressed-first", net)))
            out.append(("AddrSeq", {"K": K, "net": net, "steps": list(reversed(steps))}, ("addrseq", "uncompressed-first", net)))
    # script templates
    for _ in range(4 if q else 40):
        h20 = bytes(rng.randrange(256) for _ in range(20))
        h32 = bytes(rng.randrange(256) for _ in range(32))
        for tpl, h in (("p2pkh", h20), ("p2sh", h20), ("p2wpkh", h20), ("p2wsh", h32)):
            out.append(("ScriptTpl", {"tpl": tpl, "h": B(h)}, ("tpl", tpl)))
    for tpl, n_ in (("p2pkh", 20), ("p2sh", 20), ("p2wpkh", 20), ("p2wsh", 32)):
        out.append(("ScriptTpl", {"tpl": tpl, "h": B(bytes(rng.randrange(256) for _ in range(n_))), "then": B(bytes(rng.randrange(256) for _ in range(n_)))},
                    ("tpl-two-live-scripts", tpl)))
    for tpl, h in (("p2pkh", bytes(20)), ("p2sh", b"\xff" * 20), ("p2wpkh", bytes(20)), ("p2wsh", bytes(32))):
        out.append(("ScriptTpl", {"tpl": tpl, "h": B(h)}, ("tpl-const", tpl)))
    # HASH160 / RIPEMD-160 on every length (every padding boundary)
    if q:
        lens = sorted(set(range(0, 201)) | {n for n in range(0, 1025) if 54 <= n % 64 <= 66 or n % 64 in (0, 1, 63)} | {1024})
    else:
        lens = range(0, 1025)
    for n in lens:
        msg = bytes(rng.randrange(256) for _ in range(n))
        out.append(("Hash", B(msg), ("hash", n % 64 in (55, 56, 63, 0), n // 64)))
    # long inputs at and around multiples of 64 KiB (chunked hashing)
    for n in ((65536, 131072) if q else (65535, 65536, 65537, 131071, 131072, 131073, 196608)):
        out.append(("Hash", B(bytes((i * 7 + n) % 256 for i in range(n))), ("hash-long", n % 65536 == 0)))
    for msg in (b"", b"a", b"abc", b"message digest", b"a" * 64, b"\x00" * 119, b"\xff" * 120):
        out.append(("Hash", B(msg), ("hash-fixed", len(msg))))
    return out


def describe(ev):
    i = ev["inp"]
    if ev["act"] == "Addr":
        return "%s %s address of %s.. via %s%s" % (i["net"], i["kind"], bytes(i["K"]).hex()[:14], i["via"] + (" " + core.untext(i["xprv"])[:4] if i.get("xprv") else ""),
                                                    "" if i["compressed"] else " (uncompressed)")
    if ev["act"] == "AddrSeq":
        return "%s addresses %s from ONE PublicKey object" % (i["net"], [(s["kind"], "c" if s["compressed"] else "u") for s in i["steps"]])
    if ev["act"] == "ScriptTpl":
        return "%s_script(h).raw_serialize()" % i["tpl"]
    return "hash160/ripemd160 of %d bytes" % len(i)


def mut(e):
    import copy
    if e["act"] == "Addr" and e["res"]["ok"] and e["inp"]["kind"] in ("p2wpkh", "p2wsh"):
        c = copy.deepcopy(e)
        c["res"]["v"][10] = 113 if c["res"]["v"][10] != 113 else 112
        return c
    if e["act"] == "Hash" and e["res"]["ok"]:
        c = copy.deepcopy(e)
        c["res"]["v"]["h160"][3] ^= 1
        return c
    return None


def run(ctx):
    cfg = core.cfg_of("MC_Address.cfg")
    if not ctx.quick:
        cfg = cfg.replace("MaxPre = 3", "MaxPre = 5").replace("Alphabet = {0, 1, 255}", "Alphabet = {0, 1, 127, 255}")
    ctx.mc("MC_Address", cfg, label="5 kinds x 2 networks x keys x every hash-output prefix over the alphabet (all leading-zero "
                                    "patterns): the address decodes to the right script, network and leading-'1' count")
    events = core.build_events(ctx, gen_inputs(ctx) if ctx.quick else core.rounds(ctx, gen_inputs, 8))
    events += core.suite_events(ctx, ["tests/test_base_wallet.py", "tests/test_bip44.py", "tests/test_bip49.py", "tests/test_bip84.py"],
                                ("Addr",), len(events), limit=150 if ctx.quick else 3000)
    for e in events[:2] + events[-1:]:
        ctx.sample({"call": describe(e), "res": str(e["res"])[:160]})
    rj = ctx.validate(MODULE, events, min_shard=40)
    core.report_rejects(ctx, events, rj, describe)
    core.binding_selfcheck(ctx, MODULE, [e for e in events if e["id"] not in rj], mutate=mut, n=4)
    return ctx.finish(
        "model_checking",
        rule="one case = one address request (5 wallet methods, PublicKey.address compressed/uncompressed), one script "
             "builder, or one hash160/ripemd160 call (every length 0..1024 in thorough; compress() calls observed and "
             "checked against the padding/chaining shell); distinct = (family, kind, network, parity/leading-zero class "
             "or length mod 64 class, outcome)",
        assumptions=["SHA-256 and RIPEMD-160 digests are compared with OpenSSL's (hashlib); the compression function is uninterpreted",
                     "addresses are compared both as strings (spec encodes) and by decoding the emitted string (spec decodes)"],
        trusted_base=["TLC/SANY", "spec/Address.tla, Ripemd.tla, Base58.tla, Bech32.tla", "hashlib (OpenSSL ripemd160, sha256)",
                      "harness secp256k1", "harness projection"],
        checker_cmd="./check C05 --tier " + ctx.tier)


def replay(ctx, path):
    return core.std_replay(ctx, path, MODULE)
