"""C04 - mnemonic sentences encode their entropy losslessly with a valid checksum."""
from .. import core
from ..core import T

MODULE = "Trace_Keys"
SIZES = (16, 20, 24, 28, 32)


def gen_inputs(ctx):
    rng, q = ctx.rng, ctx.quick
    out = [("WordList", {}, ("wordlist",))]
    rb = lambda n: bytes(rng.randrange(256) for _ in range(n))
    for n in SIZES:
        pats = [(bytes(n), "zero"), (b"\xff" * n, "ones"), (b"\x00" * (n - 1) + b"\x01", "lsb"), (b"\x80" + bytes(n - 1), "msb")]
        # a single bit set at every position (each bit lands in exactly one word)
        for bit in (range(8 * n) if not q else sorted({0, 1, 10, 11, 12, 8 * n - 1, 8 * n - 5, rng.randrange(8 * n)})):
            v = 1 << (8 * n - 1 - bit)
            pats.append((v.to_bytes(n, "big"), "bit"))
        # leading-zero runs of every length (the bin()/zfill path)
        for z in (range(1, n) if not q else (1, 2, n // 2, n - 1)):
            pats.append((bytes(z) + bytes([rng.randrange(1, 256)]) + rb(n - z - 1), "lz"))
        for _ in range(6 if q else 150):
            pats.append((rb(n), "rand"))
        for b, c in pats:
            via = "wallet" if (c in ("zero", "ones") or rng.random() < 0.03) else "bip39"
            hx = b.hex() if rng.random() < 0.8 else b.hex().upper()
            out.append(("Mnemonic", {"hex": T(hx), "via": via}, ("legal", n, c, via)))
    # entropy whose hex spelling uses a restricted set of digits (only 1-6: also a string of dice rolls; only 0/1: also
    # binary; only decimal digits; only letters), legal sizes and illegal ones
    for digits, dc in (("123456", "dice"), ("01", "binary"), ("0123456789", "decimal"), ("abcdef", "letters"), ("1", "ones"), ("6", "sixes")):
        for n in (16, 20, 24, 28, 32, 25, 33, 40, 64):
            hx = "".join(rng.choice(digits) for _ in range(2 * n))
            out.append(("Mnemonic", {"hex": T(hx), "via": rng.choice(["bip39", "wallet"])}, ("restricted-digits", dc, n in SIZES)))
    # rejection clause: every other byte length 0..64
    for n in range(0, 65):
        if n in SIZES:
            continue
        for b in (bytes(n), b"\xff" * n, rb(n)) if n else (b"",):
            out.append(("Mnemonic", {"hex": T(b.hex()), "via": "bip39"}, ("illegal-size", n < 16, n > 32, n % 4 == 0)))
        out.append(("Mnemonic", {"hex": T(rb(n).hex()), "via": "wallet"}, ("illegal-size-wallet", n < 16, n > 32)))
    # odd number of digits, non-hex characters
    for s in ("0", "abc", "0" * 31, "0" * 33, "zz" * 16, "0x" + "00" * 15, "g" * 32, "00" * 15 + "0g"):
        out.append(("Mnemonic", {"hex": T(s), "via": "bip39"}, ("malformed", s[:3])))
    # digits that are not ASCII hex digits but that lenient number parsers (int(x, 16)) accept: Unicode decimal digits,
    # fullwidth letters, '_' between digits, a sign, a 0x prefix - with a character count that LOOKS like a legal size
    for n in (16, 20, 24, 28, 32):
        h = rb(n).hex()
        fw = "".join(chr(0xff10 + int(c)) if c.isdigit() else chr(0xff41 + ord(c) - 97) for c in h)       # fullwidth
        ar = "".join(chr(0x0660 + int(c)) if c.isdigit() else c for c in h)                                # Arabic-Indic digits
        one = h[:5] + chr(0xff10 + 7) + h[6:]
        for s_, c_ in ((fw, "fullwidth"), (ar, "arabic-indic"), (one, "one-fullwidth-digit"), (h[:4] + "_" + h[5:], "underscore"),
                       ("+" + h[1:], "plus"), ("0x" + h[2:], "0x-inside-count"), ("0x" + h, "0x-prefix"), (h[:-1] + "\u0660", "last-digit-unicode")):
            out.append(("Mnemonic", {"hex": T(s_), "via": "bip39"}, ("lenient-digits", c_)))
        out.append(("Mnemonic", {"hex": T(fw), "via": "wallet"}, ("lenient-digits-wallet", "fullwidth")))
    # hex with embedded whitespace: character count and byte count disagree
    for n in (8, 10, 12, 16, 20, 24, 28, 32, 11, 21):
        b = rb(n)
        h = b.hex()
        pairs = [h[i:i + 2] for i in range(0, len(h), 2)]
        for s in (" ".join(pairs), "".join(p + " " for p in pairs), h + " " * (32 - len(h) if len(h) < 32 else 8),
                  " " + h, h[:4] + "\n" + h[4:], "\t".join(pairs)):
            out.append(("Mnemonic", {"hex": T(s), "via": "bip39"}, ("spaced", n in SIZES, len(s) * 4 in (128, 160, 192, 224, 256))))
        out.append(("Mnemonic", {"hex": T(" ".join(pairs)), "via": "wallet"}, ("spaced-wallet", n in SIZES)))
    return out


def describe(ev):
    if ev["act"] == "WordList":
        return "embedded word list"
    s = core.untext(ev["inp"]["hex"])
    return "%s(%r)" % ("from_entropy_hex" if ev["inp"].get("via") == "wallet" else "mnemonic_from_entropy", s if len(s) < 70 else s[:66] + "..")


def site(ev, clause):
    return "mnemonic_from_entropy" if ev["act"] == "Mnemonic" else ev["act"]


def mut(e):
    import copy
    if e["act"] == "Mnemonic" and e["res"]["ok"] and e["res"]["v"]["idx"]:
        c = copy.deepcopy(e)
        c["res"]["v"]["idx"][-1] ^= 1
        return c
    return None


def run(ctx):
    cfg = core.cfg_of("MC_Bip39.cfg")
    if ctx.quick:
        cfg = cfg.replace("{0, 80, 144, 255}", "{0, 144}")
    ctx.mc("MC_Bip39", cfg, coverage=False, label="scaled instance (5-bit words): every 8- and 16-bit entropy value x checksum patterns")
    events = core.build_events(ctx, gen_inputs(ctx) if ctx.quick else core.rounds(ctx, gen_inputs, 10))
    events += core.suite_events(ctx, ["tests/test_bip39.py", "tests/test_bip85.py"], ("Mnemonic",), len(events),
                                limit=60 if ctx.quick else 1000)
    for e in events[1:3] + events[-1:]:
        ctx.sample({"call": describe(e), "res": str(e["res"])[:200]})
    rj = ctx.validate(MODULE, events, min_shard=100)
    core.report_rejects(ctx, events, rj, describe, site)
    core.binding_selfcheck(ctx, MODULE, [e for e in events if e["id"] not in rj and ctx.keys[e["id"]][0] == "legal"], mutate=mut)
    return ctx.finish(
        "model_checking",
        rule="one case = one mnemonic_from_entropy / BaseWallet.from_entropy_hex call (words mapped back to indices through "
             "the embedded list, which is itself checked: 2048 sorted words, unique 4-letter prefixes, SHA-256 = digest of "
             "BIP39 english.txt); distinct = (legal/illegal/malformed/spaced, size, bit pattern class, route, outcome)",
        assumptions=["hex with embedded blanks may be refused, or accepted with the sentence of the blank-stripped bytes when that is a legal size",
                     "SHA-256 is an oracle table (hashlib)"],
        trusted_base=["TLC/SANY", "spec/Bip39.tla, Bytes.tla", "hashlib.sha256", "the published english.txt digest (literal in Trace_Keys.tla)"],
        checker_cmd="./check C04 --tier " + ctx.tier)


def replay(ctx, path):
    return core.std_replay(ctx, path, MODULE)
