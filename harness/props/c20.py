"""C20 - CLI: bad arguments yield no wallet output; good ones equal the API result."""
import itertools

from .. import core
from ..core import T

MODULE = "Trace_Cli"

COMMANDS = ["none", "new", "from-master-xprv", "from-mnemonic", "from-bip39-seed", "from-entropy-hex"]
ARGS = {
    "none": ["-"],
    "new": ["len-default", "len-12", "len-24", "len-11", "len-25"],
    "from-master-xprv": ["master-xprv", "master-tprv", "child-xprv", "xpub", "110-chars", "112-chars", "bad-checksum", "unknown-version"],
    "from-mnemonic": ["12-words", "15-words", "18-words", "21-words", "24-words", "11-words", "13-words", "25-words", "12-words-padded",
                      "12-nonlist-words"],
    "from-bip39-seed": ["128-hex", "126-hex", "130-hex", "128-nonhex"],
    "from-entropy-hex": ["32-hex", "40-hex", "48-hex", "56-hex", "64-hex", "31-hex", "33-hex", "65-hex", "32-nonhex", "32-chars-with-blanks"],
}
ACCOUNTS = ["default", "0", "5", "2^31-2", "2^31-1", "2^31", "-1", "x", "+5", " 7", "1_0"]
BOUNDS = ["-1", "0", "1", "3", "2^31-1", "2^31", "2^31+1", "2^32-2", "2^32-1", "x"]
FILES = ["none", "absent", "existing", "dir", "symlink-to-file", "dangling-symlink", "parent-missing", "empty-string",
         "symlink-rel-in-subdir", "symlink-up", "symlink-abs-to-file", "symlink-to-dir", "existing-dotdot", "absent-in-subdir",
         "absent-trailing-slash", "symlink-loop", "dangling-into-missing-dir", "absent-no-extension", "existing-empty"]
PWS = ["none", "ascii", "nfkd-sensitive", "blank-padded", "empty", "json-like", "at-existing-file"]


def all_vectors():
    """the argument vectors of Cli.tla's Init (global options varied one group at a time)"""
    seen = set()
    out = []
    for c in COMMANDS:
        for a in ARGS[c]:
            combos = []
            for f, t, p in itertools.product(FILES, (False, True), (False, True)):
                combos.append((f, t, p, "default", "0", "3"))
            for x in ACCOUNTS:
                combos.append(("none", False, False, x, "0", "3"))
            for s, e in itertools.product(BOUNDS, BOUNDS):
                combos.append(("none", False, False, "default", s, e))
            for s, e in (("3", "3"), ("3", "1"), ("0", "0"), ("0", "1"), ("2^31-1", "2^31")):
                for f in ("none", "absent"):
                    combos.append((f, False, True, "default", s, e))
            for f, t, p, x, s, e in combos:
                key = (c, a, f, t, p, x, s, e)
                if key in seen:
                    continue
                seen.add(key)
                out.append({"cmd": c, "arg": a, "file": f, "testnet": t, "paranoia": p, "account": x, "start": s, "end": e, "help": False,
                            "pw": "none"})
            # the passphrase option (also on sub-commands that do not have it), to stdout and to a new file
            for w in PWS[1:]:
                for f, t, p in itertools.product(("none", "absent"), (False, True), (False, True)):
                    out.append({"cmd": c, "arg": a, "file": f, "testnet": t, "paranoia": p, "account": "default", "start": "0", "end": "3",
                                "help": False, "pw": w})
            # help requests (global and per sub-command), with and without a file option
            for f in ("none", "absent", "existing"):
                out.append({"cmd": c, "arg": a, "file": f, "testnet": False, "paranoia": False, "account": "default",
                            "start": "0", "end": "3", "help": True, "pw": "none"})
    return out


def random_vectors(rng, n):
    """random points of the FULL product of witness classes (options varied together)"""
    out = []
    for _ in range(n):
        c = rng.choice(COMMANDS[1:])
        good = {"new": ["len-default", "len-12", "len-24"], "from-master-xprv": ["master-xprv", "master-tprv", "child-xprv"],
                "from-mnemonic": ["12-words", "15-words", "18-words", "21-words", "24-words", "12-nonlist-words"],
                "from-bip39-seed": ["128-hex"], "from-entropy-hex": ["32-hex", "40-hex", "48-hex", "56-hex", "64-hex"]}[c]
        a = rng.choice(good if rng.random() < 0.8 else ARGS[c])
        s, e = rng.choice(BOUNDS), rng.choice(BOUNDS)
        if rng.random() < 0.6:
            s, e = rng.choice([("0", "1"), ("0", "3"), ("1", "3"), ("3", "3"), ("3", "1"), ("2^31-1", "2^31"), ("0", "0")])
        out.append({"cmd": c, "arg": a, "file": rng.choice(FILES if rng.random() < 0.5 else ["none", "absent"]),
                    "testnet": rng.random() < 0.5, "paranoia": rng.random() < 0.5,
                    "account": rng.choice(ACCOUNTS if rng.random() < 0.4 else ["default", "0", "5", "2^31-2"]), "start": s, "end": e,
                    "help": False, "pw": rng.choice(PWS) if (c in ("new", "from-mnemonic", "from-entropy-hex") and rng.random() < 0.5) else "none"})
    return out


def is_big(v):
    """vectors whose accepted interval would be enormous (never accepted by a conformant CLI, but a run
    that accepts them would take forever): bounded by a row cap in the driver"""
    return False


def _obs(job):
    from .. import clirun
    vec, mode, eid = job
    if risky(vec):
        mode = "subprocess" if mode == "inprocess" else mode
        clirun.TIMEOUT[0] = 60
    else:
        clirun.TIMEOUT[0] = 300
    obs, extra = clirun.observe(vec, mode)
    ev = {"id": eid, "act": "Cli", "argv": vec, "mode": mode, "obs": obs, "args": extra["args"], "stderr_tail": extra["stderr_tail"]}
    if mode == "closedpipe":
        ev["sink"] = "closed-pipe"
    return ev


def pick(ctx, vecs):
    if not ctx.quick:
        return vecs
    rng = ctx.rng
    # every class of every option at least once with a command that gets far, plus a random sample
    keep = []
    good = {"new": "len-12", "from-master-xprv": "master-xprv", "from-mnemonic": "12-words", "from-bip39-seed": "128-hex",
            "from-entropy-hex": "32-hex"}
    for v in vecs:
        if v["cmd"] in good and v["arg"] == good[v["cmd"]] and v["cmd"] in ("from-bip39-seed", "from-mnemonic"):
            if v["file"] != "none" or v["account"] != "default" or (v["start"], v["end"]) != ("0", "3"):
                if (v["start"], v["end"]) == ("0", "3") or v["cmd"] == "from-bip39-seed":
                    keep.append(v)
        elif v["cmd"] == "new" and v["arg"] == "len-12" and v["file"] != "none" and not v["testnet"] and not v["paranoia"] and v["pw"] == "none" \
                and not v["help"]:
            keep.append(v)          # every file-path state with the sub-command that has something to lose
        elif v["file"] == "none" and v["account"] == "default" and (v["start"], v["end"]) == ("0", "3") and not v["testnet"] \
                and (v["pw"] == "none" or v["arg"] == good.get(v["cmd"])):
            keep.append(v)
    rest = [v for v in vecs if v not in keep]
    keep += rng.sample(rest, 250)
    return keep


def risky(v):
    """a reversed interval with far-apart bounds: empty for a conformant command line, but a run that swaps or misreads
    the bounds would try to print millions of rows - executed as a subprocess under a short time limit only"""
    from .. import clirun
    try:
        s, e = int(clirun.BOUND[v["start"]]), int(clirun.BOUND[v["end"]])
    except ValueError:
        return False
    return s - e > 64


def expensive(v):
    """an interval that a non-conformant run would try to generate in full (millions of rows)"""
    from .. import clirun
    try:
        s, e = int(clirun.BOUND[v["start"]]), int(clirun.BOUND[v["end"]])
    except ValueError:
        return False
    return e - s > 64


def run(ctx):
    import multiprocessing as mp
    ctx.mc("Cli", core.cfg_of("Cli.cfg"), coverage=True, label="argument-vector classes x file-system states: parse/build/generate/filter/emit")
    ctx.require_actions("Cli", ["ParseArgs", "NoCommand", "BuildAndGenerate", "Filter", "Emit"])
    vecs = [v for v in pick(ctx, all_vectors()) + random_vectors(ctx.rng, 150 if ctx.quick else 3000) if not expensive(v)]
    ctx.notes["vectors_total"] = len(all_vectors())
    ctx.notes["vectors_skipped_as_unbounded"] = sum(1 for v in all_vectors() if expensive(v))
    jobs = []
    for i, v in enumerate(vecs):
        jobs.append((v, "inprocess", 2 * i))
        if (not ctx.quick) or i % 4 == 0:
            jobs.append((v, "subprocess", 2 * i + 1))
    # good vectors printing to a standard output whose reader is gone: the wallet cannot have been delivered
    good = [v for v in vecs if v["file"] == "none" and not v["help"] and v["account"] in ("default", "0", "5") and (v["start"], v["end"]) == ("0", "3")
            and v["pw"] == "none" and v["arg"] in ("len-12", "master-xprv", "12-words", "128-hex", "32-hex")]
    seen_cmd = set()
    for v in good:
        key = (v["cmd"], v["paranoia"])
        if key not in seen_cmd and (not ctx.quick or len(seen_cmd) < 6):
            seen_cmd.add(key)
            jobs.append((v, "closedpipe", 2 * len(vecs) + 10 + len(seen_cmd)))
    with mp.get_context("fork").Pool(16) as pool:
        events = pool.map(_obs, jobs, chunksize=4)
    for e in events:
        ctx.nontriv((e["argv"]["cmd"], e["argv"]["arg"], e["argv"]["file"], e["argv"]["account"], e["argv"]["start"], e["argv"]["end"],
                     e["argv"]["paranoia"], e["argv"]["testnet"], e["argv"]["pw"], e["obs"]["exit"]))
    for e in events[:2] + events[-1:]:
        ctx.sample({"argv": e["args"], "mode": e["mode"], "obs": {k: e["obs"][k] for k in ("exit", "stdout", "created", "equals_api", "net")}})
    ctx.notes["runs_exit_zero"] = sum(1 for e in events if e["obs"]["exit"] == 0)
    rj = ctx.validate(MODULE, events, min_shard=100)
    byid = {e["id"]: e for e in events}
    for eid, clause in sorted(rj.items()):
        e = byid[eid]
        site = "interval" if "hardened" in clause or "bip44" in clause else "main"
        ctx.violation(site, clause, "python -m btc_hd_wallet %s [%s] -> exit %d, stdout %s, created %s: %s" % (
            " ".join(repr(a) if " " in a or a == "" else a for a in e["args"]), e["mode"], e["obs"]["raw_exit"], e["obs"]["stdout"],
            e["obs"]["created"], clause), {"vector": e["argv"], "mode": e["mode"], "clause": clause})

    def mut(e):
        import copy
        if e["obs"]["exit"] == 0 and not e["argv"].get("help"):
            c = copy.deepcopy(e)
            c["obs"]["equals_api"] = False
            return c
        return None
    core.binding_selfcheck(ctx, MODULE, [e for e in events if e["id"] not in rj], mutate=mut)
    ctx.exhaustive = not ctx.quick
    return ctx.finish(
        "model_checking",
        rule="bounded model: every witness-class vector x file-system state through parse/build/generate/filter/emit with the "
             "four properties as invariants; replay: the same vectors concretised and executed in-process (main() under runpy, "
             "cwd = fresh directory, write-opens logged) and as `python -m btc_hd_wallet` subprocesses; each observation is "
             "judged by Trace_Cli.tla with the model's own predicates (row paths parsed by PathGrammar.tla); distinct = vector x exit",
        assumptions=["the statement does not say which values must be ACCEPTED, only what an accepted / refused run may do",
                     "vectors whose interval spans more than 64 indexes are not executed (a conformant CLI refuses the ones reaching "
                     "2^31; the others would generate millions of rows)",
                     "the test runs as root, so 'parent directory not writable' is not reachable here"],
        trusted_base=["TLC/SANY", "spec/Cli.tla, Trace_Cli.tla, PathGrammar.tla", "harness/clirun.py (concretisation, observation)",
                      "the library API as reference for 'equals the API result'"],
        checker_cmd="./check C20 --tier " + ctx.tier)


def replay(ctx, path):
    rp = core.load_replay(path)
    ev = _obs((rp["vector"], rp["mode"], 0))
    rj = ctx.validate(MODULE, [ev], shards=1)
    if rj:
        print("VIOLATION property=C20 replay=%s  # %s: %s" % (path, " ".join(ev["args"]), rj[0]))
        return 1
    print("replay: run accepted (exit %s)" % ev["obs"]["raw_exit"])
    return 0
