"""C02 - public-only derivation agrees with private derivation on every normal path."""
from .. import core, refprims as R
from ..core import B
from .c01 import b32, idx4, parent, scalars, describe as describe01, mut_node
from .c18 import pub_parent

MODULE = "Trace_Keys"
N = R.N


def gen_inputs(ctx):
    rng, q = ctx.rng, ctx.quick
    out = []
    sc = scalars(rng, q)
    NORMAL = [0, 1, 2, 2 ** 31 - 1, 2 ** 31 - 2]
    # agreement along normal paths of length 0..6 from roots at any depth (public twin parsed from the xpub string)
    for k, kc in sc:
        for _ in range(1 if q else 3):
            n = rng.randrange(0, 7)
            path = [rng.choice(NORMAL + [rng.randrange(2 ** 31), rng.randrange(2 ** 31)]) for _ in range(n)]
            depth = rng.choice([0, 1, 5, 200, 255 - n])
            root = parent(rng, k, depth=depth)
            out.append(("Agree", {"root": root, "path": [idx4(i) for i in path]}, ("agree", kc, n, depth == 0)))
    # single public steps with the real PRF: every scalar class, normal index corners
    for k, kc in (sc if not q else rng.sample(sc, 10)):
        for i in (NORMAL if not q else rng.sample(NORMAL, 2)):
            out.append(("CkdPub", {"par": pub_parent(rng, k), "i": idx4(i)}, ("pub", kc, i)))
    # children whose public key has an x coordinate with a leading zero byte (about 1 in 256): searched
    # with the harness's own BIP32 walk, then derived publicly by the code (single step and onward)
    from .. import refwallet as W
    found = 0
    for k, kc in rng.sample(sc, 3):
        par = parent(rng, k, depth=rng.choice([0, 1, 3]))
        tab = R.Table()
        rpar = W.RNode(bytes(par["k"]), R.pubkey(k), bytes(par["c"]), par["depth"], int.from_bytes(bytes(par["idx"]), "big"),
                       bytes(par["pfp"]), par["net"])
        for i in range(0, 1200 if q else 4000):
            ch = W.ckd_priv(tab, rpar, i)
            if ch is not None and ch.K[1] == 0:
                pp = pub_parent(rng, k)
                pp.update({"c": par["c"], "depth": par["depth"], "idx": par["idx"], "pfp": par["pfp"], "net": par["net"]})
                out.append(("CkdPub", {"par": pp, "i": idx4(i)}, ("pub-child-x-leading-zero",)))
                out.append(("Agree", {"root": par, "path": [idx4(i), idx4(rng.randrange(2 ** 31)), idx4(0)]}, ("agree-through-x-leading-zero",)))
                found += 1
                break
    ctx.notes["children_with_leading_zero_x_found"] = found
    # refusal clause: hardened indexes from public-only data
    hard = [2 ** 31, 2 ** 31 + 1, 2 ** 32 - 1, 2 ** 32 - 2] + [rng.randrange(2 ** 31, 2 ** 32) for _ in range(6 if q else 60)]
    for i in hard:
        k, kc = rng.choice(sc)
        out.append(("CkdPub", {"par": pub_parent(rng, k), "i": idx4(i)}, ("refuse", i in (2 ** 31, 2 ** 32 - 1))))
        # a hardened component anywhere in a public path refuses the whole path
        path = [rng.randrange(2 ** 31) for _ in range(rng.randrange(0, 4))] + [i] + [rng.randrange(2 ** 31) for _ in range(rng.randrange(0, 2))]
        out.append(("DerivePath", {"root": pub_parent(rng, k), "path": [idx4(x) for x in path]}, ("refuse-path", len(path))))
    # request sequences on ONE public node object (and on its children): descending, gapped, repeated, mixed
    # with refusals - each answer must be the child with the requested number, whatever was derived before
    orders = [[5, 0, 3], [7, 3, 1, 0, 2], [2, 6, 1, 2 ** 31, 0], [0, 1, 2, 3], [4, 4, 0, 4], [2 ** 31 - 1, 1, 0],
              [rng.randrange(2 ** 31) for _ in range(3)] + [0, 1]]
    for k, kc in rng.sample(sc, 4 if q else 16):
        for order in (rng.sample(orders, 3) if q else orders):
            steps = [{"from": 0, "i": idx4(i)} for i in order]
            # second level below the first two answers, again out of order
            steps += [{"from": 1, "i": idx4(3)}, {"from": 1, "i": idx4(0)}, {"from": 2, "i": idx4(1)}, {"from": 2, "i": idx4(0)},
                      {"from": 0, "i": idx4(1)}, {"from": 0, "i": idx4(0)}]
            root = pub_parent(rng, k, depth=rng.choice([0, 1, 3, 5]))
            out.append(("CkdSeq", {"root": root, "steps": steps}, ("pubseq", order[0] > order[1], root["depth"] == 0)))
    # bulk generation and one-shot iterables on the PUBLIC side (a hardened index anywhere in the request refuses it)
    b5 = lambda v: B(v.to_bytes(5, "big"))
    for st, en, c in ((0, 3, "low"), (2 ** 31 - 2, 2 ** 31 + 1, "straddle"), (2 ** 31 - 3, 2 ** 31, "up-to-boundary"), (2 ** 31, 2 ** 31 + 1, "hardened"), (4, 4, "empty")):
        k, kc = rng.choice(sc)
        out.append(("GenChildren", {"par": pub_parent(rng, k, depth=rng.choice([0, 2])), "start": b5(st), "end": b5(en)}, ("pub-genchildren", c)))
    # intervals with a third element (the API hands the interval to range()): stepped, descending, crossing 2^31 downwards,
    # ending above it, all hardened, empty - whichever index comes first or last, a hardened one anywhere refuses the batch
    Hd = 2 ** 31
    stepped = [(0, 9, 3, "low-step"), (5, 0, -1, "low-descending"), (Hd + 2, Hd - 3, -1, "descending-across"), (Hd + 1, Hd - 4, -2, "descending-across-step2"),
               (Hd - 4, Hd + 3, 3, "ascending-across-step3"), (Hd - 1, Hd - 5, -1, "descending-below"), (Hd, Hd - 2, -1, "descending-from-boundary"),
               (Hd + 3, Hd, -1, "descending-all-hardened"), (7, 7, -1, "empty"), (Hd - 6, Hd + 1, 5, "ascending-last-below")]
    for st, en, step, c in (stepped if not q else stepped[:1] + rng.sample(stepped[1:], 5)):
        k, kc = rng.choice(sc)
        for priv in (False, True):
            inp = {"par": (parent if priv else pub_parent)(rng, k, depth=rng.choice([0, 2])), "start": b5(st), "end": b5(en),
                   "step": {"neg": step < 0, "mag": abs(step)}, "idxs": [idx4(i) for i in range(st, en, step)]}
            out.append(("GenChildren", inp, ("genchildren-stepped", c, priv)))
    for _ in range(4 if q else 40):
        k, kc = rng.choice(sc)
        path = [rng.randrange(2 ** 31) for _ in range(rng.randrange(1, 5))]
        if rng.random() < 0.25:
            path[rng.randrange(len(path))] = rng.randrange(2 ** 31, 2 ** 32)
        out.append(("DerivePath", {"root": pub_parent(rng, k, depth=rng.choice([0, 1, 4])), "path": [idx4(x) for x in path], "form": "iterator"},
                    ("pub-path-as-iterator", len(path), any(x >= 2 ** 31 for x in path))))
    # the same refusal when the xpub was loaded through the PRIVATE node class
    for i in [2 ** 31, 2 ** 31 + 44, 2 ** 32 - 1] + [rng.randrange(2 ** 31, 2 ** 32) for _ in range(2 if q else 20)]:
        k, kc = rng.choice(sc)
        out.append(("MisloadedPub", {"par": pub_parent(rng, k, depth=rng.choice([0, 3])), "i": idx4(i)}, ("refuse-misloaded", i == 2 ** 31)))
        out.append(("MisloadedPub", {"par": pub_parent(rng, k, depth=rng.choice([0, 3])), "i": idx4(i), "via": "subclass"}, ("refuse-subclass", i == 2 ** 31)))
    # only the public child is kept by the caller (the parent object is gone before anything is printed)
    import copy
    base = [x for x in out if x[0] == "CkdPub" and "prf" not in x[1] and x[2][0] == "pub"]
    for a, inp, key in rng.sample(base, min(len(base), 6 if q else 80)):
        inp2 = copy.deepcopy(inp)
        inp2["drop"] = True
        out.append((a, inp2, ("pub-parent-object-dropped",)))
    # the outcome kinds agree under a chosen PRF as well (IL*G = -K_par <=> IL = n - k_par)
    for k, kc in rng.sample(sc, 4 if q else 12):
        il = (N - k) % N
        if il == 0:
            continue
        o = B(il.to_bytes(32, "big") + bytes(32))
        out.append(("CkdPub", {"par": pub_parent(rng, k), "i": idx4(7), "prf": {"all": o}}, ("pub-infinity", kc)))
        # IL relative to the parent scalar: IL = k_par (the child is the DOUBLE of the parent key: same x coordinate of
        # IL*G and K_par, a perfectly valid child), k_par +- 1, n - k_par + 1
        for il3, c3 in ((k % N, "IL=k_par (doubling)"), ((k + 1) % N, "IL=k_par+1"), ((k - 1) % N, "IL=k_par-1"), ((N - k + 1) % N, "IL=n-k_par+1")):
            if il3 and (il3 + k) % N:
                o3 = B(il3.to_bytes(32, "big") + bytes(range(32)))
                out.append(("CkdPub", {"par": pub_parent(rng, k), "i": idx4(9), "prf": {"all": o3}}, ("pub-il-relative", c3)))
                out.append(("CkdPriv", {"par": parent(rng, k), "i": idx4(9), "prf": {"all": o3}}, ("priv-il-relative", c3)))
        il2 = (N + 5 - k) % N
        if il2:
            o2 = B(il2.to_bytes(32, "big") + bytes(32))
            out.append(("CkdPub", {"par": pub_parent(rng, k), "i": idx4(7), "prf": {"all": o2}}, ("pub-wrap", kc)))
            out.append(("CkdPriv", {"par": parent(rng, k), "i": idx4(7), "prf": {"all": o2}}, ("priv-wrap", kc)))
    return out


def describe(ev):
    if ev["act"] == "MisloadedPub":
        return "PrvKeyNode.parse(<xpub>) then hardened derivation at %d" % int.from_bytes(bytes(ev["inp"]["i"]), "big")
    if ev["act"] == "CkdSeq":
        return "ckd requests %s on one public node object and its children" % (
            [(st["from"], int.from_bytes(bytes(st["i"]), "big")) for st in ev["inp"]["steps"]],)
    if ev["act"] == "Agree":
        return "private vs public derive_path(%s) from depth %d" % (
            [int.from_bytes(bytes(x), "big") for x in ev["inp"]["path"]], ev["inp"]["root"]["depth"])
    return describe01(ev)


def mut(e):
    import copy
    if e["act"] == "Agree" and e["res"]["ok"] and e["res"]["v"]["pub"]["ok"]:
        c = copy.deepcopy(e)
        c["res"]["v"]["pub"]["node"]["K"][7] ^= 1
        return c
    return mut_node(e) if e["act"] != "Agree" else None


def run(ctx):
    cfg = core.cfg_of("MC_Bip32.cfg")
    if not ctx.quick:
        cfg = cfg.replace("MaxDepth = 1", "MaxDepth = 2").replace("IndexVals = {0, 1, 2, 3, 4, 5, 6, 7}", "IndexVals = {0, 1, 4, 5}") \
                 .replace('Nets = {"main", "test"}', 'Nets = {"main"}')
    ctx.mc("MC_Bip32", cfg, label="toy group of order 13: Agree / RefuseHardened / NoPrivateInPublic for all parents x IL")
    ctx.mc("MC_Bip32", core.cfg_of("MC_Bip32.cfg").replace("ChainCodes = {0, 7}", "ChainCodes = {0}")
           .replace("IndexVals = {0, 1, 2, 3, 4, 5, 6, 7}", "IndexVals = {0, 4}").replace('Nets = {"main", "test"}', 'Nets = {"main"}'),
           coverage=True, label="action-label run (reduced alphabet)")
    ctx.require_actions("MC_Bip32", ["Derive", "Commit"])
    events = core.build_events(ctx, gen_inputs(ctx))
    events += core.suite_events(ctx, ["tests/test_bip32.py", "tests/test_base_wallet.py", "tests/test_bip49.py"],
                                ("CkdPub",), len(events), limit=150 if ctx.quick else 3000)
    for e in events[:1] + events[-2:]:
        ctx.sample({"call": describe(e), "res": str(e["res"])[:240]})
    rj = ctx.validate(MODULE, events, min_shard=20)
    core.report_rejects(ctx, events, rj, describe)
    core.binding_selfcheck(ctx, MODULE, [e for e in events if e["id"] not in rj], mutate=mut)
    return ctx.finish(
        "model_checking",
        rule="one case = a private and a public derivation along the same normal path (public twin parsed from the xpub "
             "string), a single PubKeyNode.ckd, or a refusal attempt; distinct = (family, scalar class, path length / "
             "index, outcome)",
        assumptions=["the group-homomorphism identity is proved by TLC only in the toy group; at real scale every observed "
                     "step is checked against independently computed point sums (harness secp256k1)"],
        trusted_base=["TLC/SANY", "spec/Bip32.tla", "harness secp256k1 (self-tested)", "hashlib", "harness projection"],
        checker_cmd="./check C02 --tier " + ctx.tier)


def replay(ctx, path):
    return core.std_replay(ctx, path, MODULE)
