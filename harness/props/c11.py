"""C11 - segwit addresses follow BIP173/BIP350 and detect up to four character errors."""
from .. import core
from ..core import B, T

MODULE = "Trace_Pure"
CHARSET = "qpzry9x8gf2tvdw0s3jn54khce6mua7l"
GEN = [0x3b6a57b2, 0x26508e6d, 0x1ea119fa, 0x3d4233dd, 0x2a1462b3]
M = 0x2bc830a3


# generator-side helpers (used only to CRAFT test strings, never as an oracle)
def _polymod(vs):
    chk = 1
    for v in vs:
        top = chk >> 25
        chk = (chk & 0x1ffffff) << 5 ^ v
        for i in range(5):
            if (top >> i) & 1:
                chk ^= GEN[i]
    return chk


def _expand(h):
    return [ord(c) >> 5 for c in h] + [0] + [ord(c) & 31 for c in h]


def _lookalikes():
    """ASCII letter/digit -> non-ASCII characters that str.lower / upper / casefold / NFKC turn into it"""
    import unicodedata
    out = {}
    for cp in list(range(0x80, 0x3000)) + list(range(0xff00, 0xfff0)) + list(range(0x1d400, 0x1d800)):
        ch = chr(cp)
        for f in (str.lower, str.upper, str.casefold, lambda x: unicodedata.normalize("NFKC", x),
                  lambda x: unicodedata.normalize("NFKC", x).lower(), lambda x: unicodedata.normalize("NFKD", x)):
            try:
                t = f(ch)
            except Exception:
                continue
            if len(t) == 1 and ord(t) < 128 and t.isalnum():
                out.setdefault(t, [])
                if ch not in out[t]:
                    out[t].append(ch)
    # case-only relatives first (they survive a decoder that merely lower-cases), then the rest
    for k in out:
        out[k].sort(key=lambda c: (c.lower() != k and c.upper() != k and c.casefold() != k, ord(c)))
    return out


LOOKALIKES = _lookalikes()


def craft(hrp, data, const):
    pm = _polymod(_expand(hrp) + data + [0] * 6) ^ const
    chk = [(pm >> 5 * (5 - i)) & 31 for i in range(6)]
    return hrp + "1" + "".join(CHARSET[d] for d in data + chk)


def to5(prog, pad=True):
    acc = bits = 0
    out = []
    for b in prog:
        acc = (acc << 8) | b
        bits += 8
        while bits >= 5:
            bits -= 5
            out.append((acc >> bits) & 31)
    if pad and bits:
        out.append((acc << (5 - bits)) & 31)
    return out


def short_checksum(hrp, k, const):
    """k < 6 symbols d with polymod(expand(hrp) + d) == const, or None (GF(2) elimination)."""
    base = _polymod(_expand(hrp) + [0] * k)
    target = base ^ const
    cols = []
    for i in range(5 * k):
        d = [0] * k
        d[i // 5] = 1 << (i % 5)
        cols.append(_polymod(_expand(hrp) + d) ^ base)
    # solve sum_{i in S} cols[i] == target
    basis = {}          # pivot bit -> (vector, mask of columns)
    for i, c in enumerate(cols):
        v, m = c, 1 << i
        while v:
            p = v.bit_length() - 1
            if p in basis:
                v ^= basis[p][0]
                m ^= basis[p][1]
            else:
                basis[p] = (v, m)
                break
    v, m = target, 0
    while v:
        p = v.bit_length() - 1
        if p not in basis:
            return None
        v ^= basis[p][0]
        m ^= basis[p][1]
    d = [0] * k
    for i in range(5 * k):
        if (m >> i) & 1:
            d[i // 5] |= 1 << (i % 5)
    return d


def convert5to8(syms):
    acc = bits = 0
    out = []
    for v in syms:
        acc = (acc << 5) | v
        bits += 5
        while bits >= 8:
            bits -= 8
            out.append((acc >> bits) & 0xff)
    return bytes(out)


def addr(hrp, ver, prog):
    return craft(hrp, [ver] + to5(prog), 1 if ver == 0 else M)


def gen_inputs(ctx):
    rng, q = ctx.rng, ctx.quick
    out = []
    rb = lambda n: bytes(rng.randrange(256) for _ in range(n))
    # ---- encode: the whole (version, length) grid, random programs
    for ver in range(0, 18):
        for n in range(0, 43):
            for hrp in (("bc", "tb") if not q else (rng.choice(["bc", "tb"]),)):
                out.append(("SegwitEnc", {"hrp": T(hrp), "ver": ver, "prog": B(rb(n))},
                            ("enc-grid", ver in (0, 1, 16, 17), n in (0, 1, 2, 20, 32, 40, 41))))
    for ver in (-1, 18, 31, 32, 255):
        out.append(("SegwitEnc", {"hrp": T("bc"), "ver": ver, "prog": B(rb(20))}, ("enc-badver", ver)))
    hrps = ["a", "bc", "tb", "bcrt", "ltc", "!", "~~", "x" * 20, "x" * 30, "x" * 31, "h" * 50, "1", "a1b", "test1"]
    for _ in range(10 if q else 60):
        hrps.append("".join(chr(rng.choice([c for c in range(33, 127) if not 65 <= c <= 90]))
                            for _ in range(rng.randrange(1, 12))))
    for hrp in hrps:
        for ver, n in ((0, 20), (0, 32), (1, 32), (16, 2), (5, 40), (2, 39)):
            out.append(("SegwitEnc", {"hrp": T(hrp), "ver": ver, "prog": B(rb(n))},
                        ("enc-hrp", len(hrp) > 20, "1" in hrp, ver == 0)))
    for hrp in ("BC", "Bc", "", "b c", "b\x7fc", "bé"):
        out.append(("SegwitEnc", {"hrp": T(hrp), "ver": 0, "prog": B(rb(20))}, ("enc-illegal-hrp", hrp)))
    # ---- decode: valid addresses and their neighbourhoods
    bases = []
    for hrp, ver, n in (("bc", 0, 20), ("bc", 0, 32), ("tb", 0, 20), ("tb", 0, 32), ("bc", 1, 32), ("tb", 1, 32),
                        ("bc", 16, 2), ("bc", 2, 40), ("bc", 5, 16), ("bcrt", 0, 20)):
        for _ in range(1 if q else 4):
            bases.append((hrp, addr(hrp, ver, rb(n))))
    # addresses WITHOUT any cased character (prefix of digits / punctuation, every data symbol and the checksum a digit)
    # and without any digit: "mixed case" is about letters only; such strings are valid in both spellings.  Searched:
    # the checksum comes out all-digits for about one candidate in two thousand.
    DIG = [i for i, ch in enumerate(CHARSET) if ch.isdigit()]
    LET = [i for i, ch in enumerate(CHARSET) if ch.isalpha()]
    found_caseless = 0
    for hrp_, pool, cls in (("1", DIG, "no-letters"), ("42", DIG, "no-letters"), ("-_-", DIG, "no-letters"), ("bc", LET, "no-digits")):
        tries = 0
        got = 0
        while got < (1 if q else 3) and tries < 60000:
            tries += 1
            ver = rng.choice([v for v in range(1, 17) if v in pool] or [0])
            nsym = rng.choice([8, 16, 32])                       # 5, 10, 20 bytes: no padding bits
            data = [ver] + [rng.choice(pool) for _ in range(nsym)]
            s_ = craft(hrp_, data, M if ver != 0 else 1)
            tail = s_[len(hrp_) + 1:]
            if all((c.isdigit() if cls == "no-letters" else c.isalpha()) for c in tail):
                got += 1
                found_caseless += 1
                prog = convert5to8(data[1:])
                out.append(("SegwitDec", {"hrp": T(hrp_), "addr": T(s_)}, ("dec-caseless", cls)))
                out.append(("SegwitDec", {"hrp": T(hrp_.upper()), "addr": T(s_.upper())}, ("dec-caseless-upper", cls)))
                out.append(("SegwitEnc", {"hrp": T(hrp_), "ver": ver, "prog": B(prog)}, ("enc-caseless", cls)))
    ctx.notes["caseless_addresses_found"] = found_caseless
    # the expected prefix against the address's own prefix, in every relation: equal, proper prefix (down to the
    # empty one), extension, suffix, same length but different, a prefix that swallows the separator or data symbols
    for real in ("bc", "tb", "bcrt", "b", "a1b", "tbs", "bc1q"):
        for ver, n in ((0, 20), (1, 32)):
            s_ = addr(real, ver, rb(n))
            cands = {real, "", real[:1], real[:-1], real + "1", real + s_[len(real) + 1], real + "x", real[1:], "x" + real,
                     real[:-1] + ("x" if real[-1] != "x" else "y"), s_[:len(real) + 2], real.upper()}
            for exp in sorted(cands):
                rel = "equal" if exp == real else "prefix" if real.startswith(exp) else "extension" if exp.startswith(real) else "other"
                out.append(("SegwitDec", {"hrp": T(exp), "addr": T(s_)}, ("hrp-relation", rel, exp == "")))
    printable = [chr(c) for c in range(33, 127)]
    for hrp, s in bases:
        sep = s.rfind("1")
        out.append(("SegwitDec", {"hrp": T(hrp), "addr": T(s)}, ("dec-valid", len(s))))
        out.append(("SegwitDec", {"hrp": T(hrp), "addr": T(s.upper())}, ("dec-upper", len(s))))
        out.append(("SegwitDec", {"hrp": T(hrp.upper()), "addr": T(s.upper())}, ("dec-upper-hrp",)))
        out.append(("SegwitDec", {"hrp": T("tb" if hrp != "tb" else "bc"), "addr": T(s)}, ("dec-wrong-hrp",)))
        # single substitutions
        for p in range(len(s)):
            if p <= sep:
                alts = printable if not q else [rng.choice(printable) for _ in range(3)] + ["1", "q"]
            else:
                alts = CHARSET if not q else [rng.choice(CHARSET) for _ in range(3)] + ["b", "i", "o", "1"]
            if not q and p > sep:
                alts = list(CHARSET) + ["b", "i", "o", "1", "Q"]
            for ch in alts:
                if ch.lower() != s[p]:
                    t = s[:p] + ch + s[p + 1:]
                    out.append(("SegwitDec", {"hrp": T(hrp), "addr": T(t), "orig": T(s)},
                                ("sub1", p <= sep, p == sep + 1, ch in CHARSET, ch.isupper())))
        # non-ASCII look-alikes that Python's own text functions map onto the right ASCII character (lower / upper /
        # casefold / NFKC: KELVIN SIGN -> k, LONG S -> s, fullwidth and circled letters and digits, ...), in the lower-case
        # and in the all-upper-case spelling of the address: a one-character substitution, to be rejected
        for form in (s, s.upper()):
            sampled = set(range(len(form)) if not q else rng.sample(range(len(form)), 6))
            for p in range(len(form)):
                # relatives by CASE MAPPING alone (KELVIN SIGN, LONG S, DOTLESS I ...) at every position they apply to:
                # they survive a decoder that merely lower-/upper-cases its input
                rel = [c for c in LOOKALIKES.get(form[p], []) + LOOKALIKES.get(form[p].swapcase(), [])
                       if form[p].lower() in (c.lower(), c.upper().lower(), c.casefold())]
                rest = [c for c in LOOKALIKES.get(form[p], []) if c not in rel][:(8 if not q else 3)] if p in sampled else []
                for ch in rel + rest:
                    out.append(("SegwitDec", {"hrp": T(hrp), "addr": T(form[:p] + ch + form[p + 1:]), "orig": T(form)},
                                ("sub1-unicode-lookalike", p <= sep, form is not s, ch in rel)))
        # 2, 3, 4 substitutions inside the data part (incl. version symbol and checksum)
        for w in (2, 3, 4):
            for _ in range((25 if q else 600)):
                ps = rng.sample(range(sep + 1, len(s)), w)
                if w == 4 and rng.random() < 0.3:
                    ps[0] = sep + 1           # force the version symbol into the pattern
                    if len(set(ps)) < 4:
                        continue
                t = list(s)
                for p in ps:
                    t[p] = rng.choice([c for c in CHARSET if c != s[p]])
                if w == 4 and sep + 1 in ps and rng.random() < 0.5:
                    t[sep + 1] = "q" if s[sep + 1] != "q" else "p"     # switch v0 <-> v1 (excluded class)
                out.append(("SegwitDec", {"hrp": T(hrp), "addr": T("".join(t)), "orig": T(s)},
                            ("sub%d" % w, sep + 1 in ps, (s[sep + 1] == "q") != (t[sep + 1] == "q"))))
        # insertion, deletion, case change, transposition
        for p in (range(len(s) + 1) if not q else sorted({0, 2, 3, 4, len(s) // 2, len(s)})):
            out.append(("SegwitDec", {"hrp": T(hrp), "addr": T(s[:p] + rng.choice(CHARSET) + s[p:])},
                        ("ins", p <= sep)))
        for p in (range(len(s)) if not q else sorted({0, 2, 3, len(s) // 2, len(s) - 1})):
            out.append(("SegwitDec", {"hrp": T(hrp), "addr": T(s[:p] + s[p + 1:])}, ("del", p <= sep)))
        letters = [i for i, c in enumerate(s) if c.isalpha()]
        for p in (letters if not q else rng.sample(letters, 4)):
            out.append(("SegwitDec", {"hrp": T(hrp), "addr": T(s[:p] + s[p].upper() + s[p + 1:])},
                        ("mixedcase", p <= sep)))
        # case PATTERNS over whole regions (a decoder that looks at the regions one by one, at the first or last letter,
        # or at a sample, sees one case in each): prefix / data part / checksum / halves / alternate letters / all but
        # one letter, each in the spelling and in its mirror image
        U = s.upper()
        mid = (sep + 1 + len(s)) // 2
        pats = {"hrp-upper": U[:sep] + s[sep:], "data-upper": s[:sep + 1] + U[sep + 1:], "hrp+version-upper": U[:sep + 2] + s[sep + 2:],
                "checksum-upper": s[:-6] + U[-6:], "checksum-lower": U[:-6] + s[-6:], "first-half-upper": U[:mid] + s[mid:],
                "second-half-upper": s[:mid] + U[mid:], "alternate": "".join(c.upper() if j % 2 else c for j, c in enumerate(s)),
                "payload-upper": s[:sep + 2] + U[sep + 2:-6] + s[-6:]}
        if letters:
            pats["all-but-first-letter-upper"] = U[:letters[0]] + s[letters[0]] + U[letters[0] + 1:]
            pats["all-but-last-letter-upper"] = U[:letters[-1]] + s[letters[-1]] + U[letters[-1] + 1:]
        for nm, t in sorted(pats.items()):
            if t != s and t != U:
                for h_ in (hrp, hrp.upper()):
                    out.append(("SegwitDec", {"hrp": T(h_), "addr": T(t), "orig": T(s)}, ("mixedcase-pattern", nm, h_ == hrp)))
        for p in (range(sep + 1, len(s) - 1) if not q else rng.sample(range(sep + 1, len(s) - 1), 4)):
            if s[p] != s[p + 1]:
                out.append(("SegwitDec", {"hrp": T(hrp), "addr": T(s[:p] + s[p + 1] + s[p] + s[p + 2:]), "orig": T(s)},
                            ("transpose",)))
        for k in range(0, 9):
            out.append(("SegwitDec", {"hrp": T(hrp), "addr": T(s[:k])}, ("trunc-head", k)))
            out.append(("SegwitDec", {"hrp": T(hrp), "addr": T(s[:len(s) - k - 1])}, ("trunc-tail", k)))
    # ---- crafted rule violations with a VALID checksum
    for hrp in ("bc", "tb"):
        for ver in range(0, 32):
            for n in (20, 32, 2, 1, 40, 41):
                prog = rb(n)
                for const in (1, M):
                    out.append(("SegwitDec", {"hrp": T(hrp), "addr": T(craft(hrp, [ver] + to5(prog), const))},
                                ("craft", ver == 0, 1 <= ver <= 16, ver > 16, n, const == 1)))
            if q and ver > 3 and ver not in (16, 17, 31):
                continue
        # v0 with every program length 0..42
        for n in range(0, 43):
            out.append(("SegwitDec", {"hrp": T(hrp), "addr": T(craft(hrp, [0] + to5(rb(n)), 1))}, ("v0len", n in (20, 32))))
            out.append(("SegwitDec", {"hrp": T(hrp), "addr": T(craft(hrp, [1] + to5(rb(n)), M))}, ("v1len", 2 <= n <= 40)))
        # padding: non-zero pad bits, a whole extra symbol, no data at all
        for n in (20, 32, 2, 5, 10):
            d = to5(rb(n))
            bad = d[:-1] + [d[-1] | 1]
            out.append(("SegwitDec", {"hrp": T(hrp), "addr": T(craft(hrp, [0 if n in (20, 32) else 1] + bad, 1 if n in (20, 32) else M))},
                        ("pad-nonzero", n)))
            out.append(("SegwitDec", {"hrp": T(hrp), "addr": T(craft(hrp, [1] + d + [0], M))}, ("pad-extra-symbol", n)))
            out.append(("SegwitDec", {"hrp": T(hrp), "addr": T(craft(hrp, [1] + d + [0, 0], M))}, ("pad-two-symbols", n)))
        out.append(("SegwitDec", {"hrp": T(hrp), "addr": T(craft(hrp, [], 1))}, ("empty-data",)))
        out.append(("SegwitDec", {"hrp": T(hrp), "addr": T(craft(hrp, [0], 1))}, ("version-only",)))
    # overall length 89, 90, 91, 92 with a valid checksum
    for total in (88, 89, 90, 91, 92, 100):
        for ver, const in ((1, M),):
            hl = 12
            nsym = total - hl - 1 - 6 - 1
            hrp = "h" * hl
            data = [ver] + [rng.randrange(32) for _ in range(nsym - 1)] + [0]
            out.append(("SegwitDec", {"hrp": T(hrp), "addr": T(craft(hrp, data, const))}, ("total-length", total)))
    # valid polymod but fewer than six symbols after the separator (solved by linear algebra over GF(2))
    for k, tries in ((5, 400), (4, 6000 if not q else 0)):
        found = 0
        for t in range(tries):
            hrp = "".join(rng.choice("abcdefghijklmnopqrstuvwxyz023456789") for _ in range(rng.randrange(1, 8)))
            for const in (1, M):
                sol = short_checksum(hrp, k, const)
                if sol is not None:
                    s_ = hrp + "1" + "".join(CHARSET[d] for d in sol)
                    assert _polymod(_expand(hrp) + sol) == const
                    out.append(("SegwitDec", {"hrp": T(hrp), "addr": T(s_)}, ("short-checksum", k, const == 1)))
                    found += 1
            if found >= (4 if k == 5 else 2):
                break
    # junk
    for s in ("", "1", "bc1", "bc", "1qqqqqq", "bc1qqqqqq", " bc1qw508d6qejxtdg4y5r3zarvary0c5xw7kv8f3t4",
              "bc1qw508d6qejxtdg4y5r3zarvary0c5xw7kv8f3t4 ", "bc1qw508d6qejxtdg4y5r3zarvary0c5xw7kv8f3t4\n",
              "bc1\x7fw508d6qejxtdg4y5r3zarvary0c5xw7kv8f3t4", "bc1éw508d6qejxtdg4y5r3zarvary0c5xw7kv8f3t4"):
        out.append(("SegwitDec", {"hrp": T("bc"), "addr": T(s)}, ("junk", s[:4])))
    return out


def describe(ev):
    i = ev["inp"]
    if ev["act"] == "SegwitEnc":
        return "bech32.encode(%r, %d, <%d bytes>)" % (core.untext(i["hrp"]), i["ver"], len(i["prog"]))
    return "bech32.decode(%r, %r)" % (core.untext(i["hrp"]), core.untext(i["addr"]))


def run(ctx):
    grid = core.cfg_of("MC_Bech32_grid.cfg")
    if ctx.quick:
        grid = grid.replace("VersAll", "VersQuick").replace("LensAll", "LensQuick")
    r = ctx.mc("MC_Bech32", grid, label="rules grid version x length x pattern x prefix (real scale)")
    # anti-vacuity without -coverage (which disables TLC's constant caching and is ~40x slower here):
    # the three Pick actions are the only way to reach the grid states, so the state count decomposes exactly
    nv, nl = (5, 13) if ctx.quick else (18, 43)
    if r.distinct != 1 + nv + nv * nl + nv * nl * 12:
        raise core.MachineryError("MC_Bech32 grid: %d states, expected %d" % (r.distinct, 1 + nv + nv * nl + nv * nl * 12))
    ctx.actions_covered.update({"MC_Bech32.PickVer": nv, "MC_Bech32.PickLen": nv * nl, "MC_Bech32.PickRest": nv * nl * 12})
    syn = core.cfg_of("MC_Bech32_syn.cfg")
    # data-part lengths: 39 (42-char P2WPKH), 59 (62-char P2WSH/P2TR mainnet+testnet); thorough: more lengths
    # the longest data part an address can have is 1 + 64 + 6 = 71 symbols (40-byte program)
    lens = [39, 59] if ctx.quick else [39, 59, 8, 11, 21, 33, 40, 60, 71]
    syn_counts = {}
    for L in lens:
        r = ctx.mc("MC_Bech32", syn.replace("L = 39", "L = %d" % L),
                   label="syndrome distinctness, %d data symbols, both constants and cross-constant" % L)
        exp = (1 + 31 * L + 961 * L * (L - 1) // 2) + (1 + 31 * L)
        if r.distinct != exp or r.tuples("SYNDROME-COLLISION"):
            raise core.MachineryError("syndrome collision in the SPECIFICATION's polymod at L=%d: %d distinct, %d expected"
                                      % (L, r.distinct, exp))
        syn_counts[str(L)] = r.distinct
    ctx.notes["syndrome_states_by_data_length"] = syn_counts
    events = core.build_events(ctx, gen_inputs(ctx))
    events += core.suite_events(ctx, ["tests/test_bech32.py", "tests/test_helper.py", "tests/test_base_wallet.py"],
                                ("SegwitEnc", "SegwitDec"), len(events), limit=200 if ctx.quick else 2000)
    for e in events[:1] + events[3000:3002] + events[-1:]:
        ctx.sample({"act": e["act"], "call": describe(e), "res": e["res"]})
    rj = ctx.validate(MODULE, events)
    core.report_rejects(ctx, events, rj, describe)
    def mut(e):
        if e["act"] == "SegwitDec" and e["res"]["ok"]:
            import copy
            c = copy.deepcopy(e)
            c["res"]["v"]["prog"][0] ^= 1
            return c
        return core.corrupt_event(e) if e["act"] == "SegwitEnc" else None
    core.binding_selfcheck(ctx, MODULE, [e for e in events if e["id"] not in rj][800:], mutate=mut)
    return ctx.finish(
        "model_checking",
        rule="one case = one call of bech32.encode / bech32.decode; distinct = (family, position class, version "
             "class, length class, outcome). Encode: whole grid version 0..17 x length 0..42. Decode: every single "
             "substitution (thorough) of 10 valid addresses, sampled 2/3/4-substitutions (judged through the spec's "
             "own Hamming/switch predicate), insert/delete/case/transposition/truncation, crafted rule violations "
             "with a valid checksum. Error detection itself is decided on the spec's polymod by syndrome-state "
             "counting (complete for weight <=4 at the listed lengths).",
        assumptions=["the weight-4 patterns that switch between witness version 0 and non-zero are excluded by the statement",
                     "HRP/separator errors are covered end to end (they are not positions of the linear code)"],
        trusted_base=["TLC/SANY", "spec/Bech32.tla", "CommunityModules Bitwise (Java override)", "harness projection"],
        checker_cmd="./check C11 --tier " + ctx.tier)


def replay(ctx, path):
    return core.std_replay(ctx, path, MODULE)
