"""C13 - derivation is a pure function of root key and path, whatever happened before."""
import json

from .. import core, hdreplay
from .. import replay as simreplay

FAMILY = "purity"
PROP_OF = {"purity": "C13", "watch": "C14", "network": "C16"}


def model_runs(ctx, calls_quick=3, calls_thorough=4):
    cfg = core.cfg_of("HDWallet.cfg")
    if ctx.quick:
        cfg = cfg.replace("MaxCalls = 4", "MaxCalls = %d" % calls_quick)
    else:
        cfg = cfg.replace("MaxCalls = 4", "MaxCalls = %d" % calls_thorough)
    ctx.mc("HDWallet", cfg, label="2 threads, full + watch-only wallet, generators, scramble: all histories up to the call bound",
           timeout=3000 if ctx.quick else 20000)
    # action labels from a reduced instance (the labelled graph of the full model is large)
    small = core.cfg_of("HDWallet.cfg").replace("MaxCalls = 4", "MaxCalls = 2").replace('Threads = {"t1", "t2"}', 'Threads = {"t1"}')
    ctx.mc("HDWallet", small, coverage=True, label="action-label run (1 thread, 3 calls)")
    ctx.require_actions("HDWallet", ["CkdCompute", "CkdAppend", "ByPath", "AddrReq", "ExtKeysReq", "PrivateReq", "GenNew",
                                     "GenStep", "ImportWatch", "Scramble", "PaperReq"])


def negative_tests(ctx, which):
    """built-in negative tests: a realistic wrong design must violate the stated invariant"""
    st, tr = ctx.states, ctx.transitions
    res = {}
    for dev, inv in which:
        cfg = core.cfg_of("HDWallet_neg.cfg").replace('{"cursor"}', '{"%s"}' % dev)
        r = ctx.mc("HDWallet", cfg, expect_ok=False, label="negative test: deviation '%s' must violate %s" % (dev, inv), timeout=900)
        if not r.invariant_violated:
            raise core.MachineryError("negative test: deviation %s did not violate any invariant" % dev)
        res[dev] = r.invariant_violated[0]
    ctx.states, ctx.transitions = st, tr
    ctx.notes["negative_tests"] = res


def behaviours(ctx, num, depth, calls=14, focus=True):
    cfg = core.cfg_of("HDWallet.cfg").replace("MaxCalls = 4", "MaxCalls = %d" % calls)
    bs, n = simreplay.simulate("HDWallet", cfg, num, depth, ctx.seed + 1, variables=("obs", "pc", "net"), timeout=1200)
    ctx.transitions += n
    if focus:
        # generator-dense behaviours from the restricted next-state relation (same actions, same invariants);
        # indexes 0..3 so that cursors can advance
        cfg2 = cfg.replace("SPECIFICATION Spec", "SPECIFICATION SpecGenFocus").replace("IndexVals = {0, 1, 4}", "IndexVals = {0, 1, 2, 3}") \
                  .replace("MaxDepth = 2", "MaxDepth = 2")
        bs2, n2 = simreplay.simulate("HDWallet", cfg2, max(20, num // 2), depth + 4, ctx.seed + 2, variables=("obs", "pc", "net"), timeout=1200)
        ctx.transitions += n2
        bs += bs2
    for b in bs:
        b[0]["net"] = b[0].get("net", "main")
    return bs


def replay_all(ctx, bs, family, threaded_groups=0):
    """sequential replay of every behaviour + threaded replays; only mismatches of `family` belong
    to this property (the others are reported by the property they belong to)"""
    others = {}
    for bi, b in enumerate(bs):
        kinds = tuple(sorted({s["action"] for s in b}))
        try:
            W = hdreplay.run_behaviour(b)
            ctx.traces += 1
            ctx.evaluations += len(b)
            ctx.nontriv(("seq", kinds, len(b)))
            ctx.notes["replay_checks"] = ctx.notes.get("replay_checks", 0) + W.checks
            if family == "purity":
                ctx.notes["lifetime_checks"] = ctx.notes.get("lifetime_checks", 0) + hdreplay.lifetime_check(W)
        except hdreplay.Mismatch as m:
            if m.family == family:
                ctx.violation("hdwallet-replay", m.family, m.what, {"mode": "sequential", "behaviour": b})
            else:
                others[m.family] = others.get(m.family, 0) + 1
        if bi < 2:
            ctx.sample({"behaviour": [[s["action"]] + [json.dumps(s["args"])] for s in b][:12]})
    if family == "purity":
        # two DIFFERENT wallets whose masters share the 4-byte fingerprint (cd9258b3), one after the other in this
        # process: anything the library remembers between calls must be keyed by the key, not by a short identifier
        twins = ("7bee9dfd28a669f86d855cf2c6543794", "3eb5458358ca365bb3f4fb41f8c65947")
        for b in [x for x in bs if x[0].get("net", "main") == "main"][:4 if ctx.quick else 40]:
            for sd in twins + twins[:1]:
                try:
                    hdreplay.run_behaviour(b, seed_hex=sd)
                    ctx.traces += 1
                    ctx.nontriv(("twin-fingerprint-wallets",))
                except hdreplay.Mismatch as m:
                    if m.family == family:
                        ctx.violation("hdwallet-replay-twins", m.family, m.what + " (second of two wallets with equal master fingerprints)",
                                      {"mode": "twins", "behaviour": b, "seeds": list(twins)})
                    break
    g = 0
    i = 0
    while g < threaded_groups and i + 4 <= len(bs):
        grp = [b for b in bs[i:i + 4]]
        nets = {b[0]["net"] for b in grp}
        i += 4
        if len(nets) != 1:
            continue
        g += 1
        try:
            W = hdreplay.run_threaded(grp)
            ctx.traces += 1
            ctx.evaluations += sum(len(b) for b in grp)
            ctx.nontriv(("threads", g))
        except hdreplay.Mismatch as m:
            if m.family == family:
                ctx.violation("hdwallet-replay-threads", m.family, m.what, {"mode": "threads", "behaviours": grp})
            else:
                others[m.family] = others.get(m.family, 0) + 1
    if others:
        ctx.notes["mismatches_of_other_properties"] = {PROP_OF[k]: v for k, v in others.items()}


def cold_start(ctx, family):
    """fresh processes whose first use of the library is multi-threaded (one-time initialisation under a race)"""
    # the design-level statement (spec/ColdStart.tla): build privately + publish atomically keeps every answer
    # sequential; the in-place two-phase fill does not (negative test); somebody does get an answer (anti-vacuity)
    cfg = core.cfg_of("ColdStart.cfg")
    ctx.mc("ColdStart", cfg, label="lazy one-time initialisation under 3 threads: build privately, publish atomically")
    st, tr = ctx.states, ctx.transitions
    r = ctx.mc("ColdStart", cfg.replace("Deviations = {}", 'Deviations = {"inplace"}').replace("INVARIANT PublishedIsComplete\n", ""),
               expect_ok=False, label="negative test: table published first and filled in place")
    if "AnswersAreSequential" not in (r.invariant_violated or [""])[0]:
        raise core.MachineryError("ColdStart negative test: the in-place design did not violate AnswersAreSequential")
    r = ctx.mc("ColdStart", cfg.replace("INVARIANT AnswersAreSequential", "INVARIANT NobodyAnswered"), expect_ok=False,
               label="anti-vacuity: some thread gets an answer")
    if "NobodyAnswered" not in (r.invariant_violated or [""])[0]:
        raise core.MachineryError("ColdStart anti-vacuity: no thread ever got an answer")
    ctx.states, ctx.transitions = st, tr
    try:
        n = hdreplay.cold_start_threads(nproc=4 if ctx.quick else 40, nthreads=8, seed=ctx.seed)
        ctx.notes["cold_start_thread_answers_compared"] = n
        ctx.evaluations += n
    except hdreplay.Mismatch as m:
        if m.family == family:
            ctx.violation("cold-start-threads", m.family, m.what, {"mode": "cold-start", "seed": ctx.seed})
        else:
            ctx.notes.setdefault("mismatches_of_other_properties", {})[PROP_OF[m.family]] = 1


def run(ctx):
    model_runs(ctx)
    negative_tests(ctx, [("memo", "Pure")])
    bs = behaviours(ctx, 150 if ctx.quick else 3000, 16)
    replay_all(ctx, bs, FAMILY, threaded_groups=8 if ctx.quick else 150)
    # free-running threads hammering shared nodes (by_path / derive_path / generate_children / generators)
    try:
        st = hdreplay.stress_threads(seconds=12 if ctx.quick else 120, seed=ctx.seed)
        ctx.notes["thread_stress"] = st
        ctx.evaluations += st["calls"]
        ctx.traces += st["threads"]
    except hdreplay.Mismatch as m:
        ctx.violation("hdwallet-thread-stress", m.family, m.what, {"mode": "stress", "seed": ctx.seed})
    cold_start(ctx, FAMILY)
    try:
        ctx.notes["long_scan_requests"] = hdreplay.long_scan(2600 if ctx.quick else 9000, 1100 if ctx.quick else 4400)
    except hdreplay.Mismatch as m:
        ctx.violation("capacity-long-scan", m.family, m.what, {"mode": "long-scan"})
    try:
        ctx.notes["bip85_spelled_requests_compared"] = hdreplay.bip85_spellings()
    except hdreplay.Mismatch as m:
        ctx.violation("bip85-call-spellings", m.family, m.what, {"mode": "bip85-spellings"})
    try:
        ctx.notes["generator_pairs_after_sent_skips"] = sum(hdreplay.generator_jumps(ctx.seed + r) for r in range(1 if ctx.quick else 12))
    except hdreplay.Mismatch as m:
        ctx.violation("address-generator-sent-skips", m.family, m.what, {"mode": "generator-jumps", "seed": ctx.seed})
    try:
        ctx.notes["requests_with_reused_argument_objects"] = sum(hdreplay.held_arguments(ctx.seed + r) for r in range(1 if ctx.quick else 10))
    except hdreplay.Mismatch as m:
        ctx.violation("reused-argument-objects", m.family, m.what, {"mode": "held-arguments", "seed": ctx.seed})
    # binding self-check: a behaviour with one step's result tampered with must be flagged
    ctx.binding_selfcheck = selfcheck(bs)
    return ctx.finish(
        "model_checking",
        rule="bounded model: all interleavings of API calls of 2 threads on a full and a watch-only wallet up to the call "
             "bound; replay: TLC-simulated behaviours (up to 16 steps) stepped through shared real objects, sequentially "
             "and 4 at a time on free-running threads (switch interval 1e-6); distinct = set of action kinds x length",
        assumptions=["bytecode-level interleavings inside one call are stress-sampled, not enumerated (CPython offers no schedule control)",
                     "the stateless reference is the implementation itself on fresh objects (its correctness is C01/C02/C05/C12's business)",
                     "invalid derivations of the toy model are realised at real scale by substituting the HMAC answer for exactly that query"],
        trusted_base=["TLC/SANY", "spec/HDWallet.tla, Toy.tla, Bip32.tla", "harness/hdreplay.py (object mapping)"],
        checker_cmd="./check C13 --tier " + ctx.tier)


def selfcheck(bs):
    """drive the replayer with a behaviour whose model outcome was flipped; it must raise"""
    import copy
    for b in bs:
        for k, s in enumerate(b):
            if s["action"] == "ByPath" and s["obs"][3] == "ok" and s["args"][1] == "full":
                c = copy.deepcopy(b[:k + 1])
                c[k]["obs"][3] = "refused"
                try:
                    hdreplay.run_behaviour(c)
                except hdreplay.Mismatch:
                    return {"tampered_behaviour_rejected": True}
                raise core.MachineryError("binding self-check: a tampered behaviour was accepted by the replayer")
    raise core.MachineryError("binding self-check: no behaviour with a successful by_path step")


def replay(ctx, path):
    rp = core.load_replay(path)
    try:
        if rp.get("mode") == "stress":
            hdreplay.stress_threads(seconds=30, seed=rp.get("seed", 0))
        elif rp.get("mode") == "long-scan":
            hdreplay.long_scan(9000, 4400)
        elif rp.get("mode") == "bip85-spellings":
            hdreplay.bip85_spellings()
        elif rp.get("mode") == "held-arguments":
            for r in range(10):
                hdreplay.held_arguments(rp.get("seed", 0) + r)
        elif rp.get("mode") == "generator-jumps":
            for r in range(12):
                hdreplay.generator_jumps(rp.get("seed", 0) + r)
        elif rp.get("mode") == "twins":
            for sd in list(rp["seeds"]) + list(rp["seeds"])[:1]:
                hdreplay.run_behaviour(rp["behaviour"], seed_hex=sd)
        elif rp.get("mode") == "cold-start":
            hdreplay.cold_start_threads(nproc=12, nthreads=8, seed=rp.get("seed", 0))
        elif rp.get("mode") == "threads":
            hdreplay.run_threaded(rp["behaviours"])
        else:
            hdreplay.run_behaviour(rp["behaviour"])
    except hdreplay.Mismatch as m:
        print("VIOLATION property=%s replay=%s  # %s" % (ctx.prop, path, m.what))
        return 1
    print("replay: behaviour accepted")
    return 0
