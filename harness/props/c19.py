"""C19 - script and varint wire encodings round-trip with standard minimal pushes."""
from .. import core
from ..core import B

MODULE = "Trace_Pure"


def elem(rng, n):
    return B(bytes(rng.randrange(256) for _ in range(n)))


def ser_ref(cmds):
    """harness-side serialisation only to GENERATE tapes (not an oracle)."""
    raw = b""
    for c in cmds:
        if "op" in c:
            raw += bytes([c["op"]])
        else:
            n = len(c["d"])
            if n <= 75:
                raw += bytes([n])
            elif n <= 255:
                raw += bytes([76, n])
            else:
                raw += bytes([77, n & 255, n >> 8])
            raw += bytes(c["d"])
    n = len(raw)
    if n < 0xfd:
        pre = bytes([n])
    elif n < 0x10000:
        pre = b"\xfd" + n.to_bytes(2, "little")
    else:
        pre = b"\xfe" + n.to_bytes(4, "little")
    return pre + raw


def band(n):
    for lim, name in ((0, "0"), (74, "1-74"), (75, "75"), (76, "76"), (254, "77-254"), (255, "255"), (256, "256"),
                      (519, "257-519"), (520, "520"), (521, "521")):
        if n <= lim:
            return name
    return ">521"


def gen_inputs(ctx):
    rng, q = ctx.rng, ctx.quick
    out = []
    # every element length 0..521, serialised (both forms) and parsed back incl. every prefix class
    for n in range(0, 522):
        cm = [{"op": 0x76}, {"d": elem(rng, n)}, {"op": 0xac}]
        out.append(("ScriptSer", {"cmds": [{"d": elem(rng, n)}], "raw": True}, ("len", band(n), "raw")))
        out.append(("ScriptSer", {"cmds": cm, "raw": False}, ("len", band(n), "full")))
        if 1 <= n <= 520:
            tape = ser_ref(cm)
            out.append(("ScriptParse", B(tape), ("parse-len", band(n))))
            cuts = range(len(tape)) if (not q or n in (1, 2, 20, 75, 76, 77, 255, 256, 300, 520)) else \
                sorted({0, 1, 2, 3, len(tape) // 2, len(tape) - 2, len(tape) - 1})
            for c in cuts:
                out.append(("ScriptParse", B(tape[:c]), ("prefix", band(n), "in-varint" if c < (1 if len(tape) < 254 else 3) else "body")))
    # element CONTENT must not influence the encoding: every single-byte value, and short elements whose
    # first byte looks like an opcode / push marker
    for v in range(256):
        out.append(("ScriptSer", {"cmds": [{"d": [v]}], "raw": True}, ("one-byte", v <= 16, v in (0x4c, 0x4d, 0x4e, 0x81))))
        cm = [{"op": 0x76}, {"d": [v]}, {"op": 0x87}]
        out.append(("ScriptSer", {"cmds": cm, "raw": False}, ("one-byte-in-script", v <= 16)))
        out.append(("ScriptParse", B(ser_ref(cm)), ("one-byte-parse", v <= 16)))
    for first in (0, 1, 16, 75, 76, 77, 78, 79, 0x81, 0xff):
        for n in (2, 3, 33, 75, 76):
            out.append(("ScriptSer", {"cmds": [{"d": [first] + elem(rng, n - 1)}], "raw": True}, ("first-byte", first, n)))
    for n in (522, 600, 65535, 65536, 70000):
        out.append(("ScriptSer", {"cmds": [{"d": elem(rng, n)}], "raw": True}, ("len", ">521", n)))
    # all opcode bytes
    for op in range(256):
        if 1 <= op <= 77:
            continue
        out.append(("ScriptSer", {"cmds": [{"op": op}], "raw": False}, ("op", op == 0, op >= 0x4e)))
        out.append(("ScriptParse", B(bytes([1, op])), ("op-parse",)))
    # random multi-element scripts, parse of serialisation, prefixes, corrupted length bytes
    lens = [1, 2, 74, 75, 76, 77, 255, 256, 257, 519, 520]
    for k in range(60 if q else 1500):
        cmds = []
        for _ in range(rng.randrange(1, 7)):
            if rng.random() < 0.45:
                op = rng.choice([0, 78, 79, 0x51, 0x76, 0xa9, 0x87, 0x88, 0xac, 0xae, 0xff, rng.randrange(78, 256)])
                cmds.append({"op": op})
            else:
                n = rng.choice(lens) if rng.random() < 0.6 else rng.randrange(1, 521)
                cmds.append({"d": elem(rng, n)})
        out.append(("ScriptSer", {"cmds": cmds, "raw": bool(k & 1)}, ("multi", len(cmds))))
        tape = ser_ref(cmds)
        out.append(("ScriptParse", B(tape), ("multi-parse", len(cmds))))
        out.append(("ScriptParse", B(tape + bytes([rng.randrange(256)] * 3)), ("trailing",)))
        ncut = 6 if q else 25
        for c in sorted({rng.randrange(len(tape)) for _ in range(ncut)} | {len(tape) - 1}):
            out.append(("ScriptParse", B(tape[:c]), ("multi-prefix", c < 3)))
        for _ in range(3 if q else 8):
            t = bytearray(tape)
            p = rng.randrange(min(len(t), 6))
            t[p] = rng.randrange(256)
            out.append(("ScriptParse", B(bytes(t)), ("corrupt-head",)))
    # scripts whose raw size reaches 64 KiB (127 elements of 520 bytes and more): the length prefix needs the 0xfe form
    for nel in ((127,) if q else (125, 126, 127, 130)):
        cm = [{"d": elem(rng, 520)} for _ in range(nel)]
        out.append(("ScriptSer", {"cmds": cm, "raw": False}, ("ser-64KiB", nel * 523 >= 65536)))
    # scripts BUILT IN STEPS: serialised once, then extended through the public command list, then serialised again
    for _ in range(12 if q else 150):
        cm = [({"op": rng.choice([0, 0x51, 0x76, 0xa9, 0xac])} if rng.random() < 0.5 else {"d": elem(rng, rng.choice([1, 20, 75, 76, 255, 256]))})
              for _ in range(rng.randrange(2, 6))]
        out.append(("ScriptSer", {"cmds": cm, "raw": rng.random() < 0.5, "built_in_steps": rng.randrange(0, len(cm))}, ("ser-built-in-steps",)))
    # tapes with NON-MINIMAL pushes and with oversized PUSHDATA2 elements, lengths declared correctly: whether the
    # parser takes them or not, what it returns must serialise in standard form (or refuse elements over 520 bytes)
    def vi(n):
        return bytes([n]) if n < 0xfd else bytes([0xfd, n & 255, n >> 8])
    for n_, hdr in [(k, bytes([76, k])) for k in (1, 2, 20, 75)] + [(k, bytes([77, k & 255, k >> 8])) for k in (1, 75, 76, 255, 256, 520, 521, 600, 1000)]:
        body = hdr + bytes(rng.randrange(256) for _ in range(n_))
        for extra in (b"", bytes([0x51]), bytes([3, 1, 2, 3])):
            raw = extra + body + extra
            out.append(("ScriptParse", B(vi(len(raw)) + raw), ("non-minimal-or-oversized-push", hdr[0], n_ > 520)))
    # small tapes (random over the interesting alphabet)
    alpha = [0, 1, 2, 3, 75, 76, 77, 78, 0x51, 0xfc, 0xfd, 0xfe, 0xff]
    import itertools
    for n in range(0, 4 if q else 5):
        for t in itertools.product(alpha, repeat=n):
            out.append(("ScriptParse", B(bytes(t)), ("tape", n, t[0] if t else -1)))
    # varints
    bnd = [0, 1, 0xfc, 0xfd, 0xfe, 0xff, 0x100, 0xffff, 0x10000, 0x10001, 0xffffffff, 0x100000000,
           0xfffffffe, 2 ** 32 + 1, 2 ** 63, 2 ** 64 - 1, 2 ** 64 - 2, 2 ** 64, 2 ** 64 + 1, 2 ** 72 - 1]
    vals = set(bnd)
    for b in bnd:
        vals.update({max(0, b - 1), b + 1})
    for _ in range(100 if q else 4000):
        vals.add(rng.randrange(2 ** rng.choice([8, 16, 24, 32, 40, 56, 64, 65])))
    for v in sorted(vals):
        le = B(v.to_bytes((v.bit_length() + 7) // 8, "little"))
        w = 1 if v < 0xfd else 3 if v < 0x10000 else 5 if v < 2 ** 32 else 9 if v < 2 ** 64 else 0
        out.append(("VarintEnc", le, ("vi-enc", w, v in bnd)))
        if v < 2 ** 64:
            enc = bytes([v]) if v < 0xfd else (b"\xfd" + v.to_bytes(2, "little") if v < 0x10000 else
                                               b"\xfe" + v.to_bytes(4, "little") if v < 2 ** 32 else
                                               b"\xff" + v.to_bytes(8, "little"))
            out.append(("VarintRead", B(enc), ("vi-read", w)))
            out.append(("VarintRead", B(enc + b"\x99"), ("vi-read-trailing", w)))
            for c in range(len(enc)):
                out.append(("VarintRead", B(enc[:c]), ("vi-short", w, c)))
    # non-minimal encodings are readable (the statement does not forbid reading them)
    for t in ([0xfd, 1, 0], [0xfe, 1, 0, 0, 0], [0xff, 1, 0, 0, 0, 0, 0, 0, 0]):
        out.append(("VarintRead", t, ("vi-nonminimal", len(t))))
    return out


def describe(ev):
    if ev["act"] == "ScriptSer":
        return "Script(%s).%s()" % ([("op%d" % c["op"]) if "op" in c else "%d-byte" % len(c["d"]) for c in ev["inp"]["cmds"]],
                                   "raw_serialize" if ev["inp"]["raw"] else "serialize")
    return "%s(%s)" % (ev["act"], bytes(ev["inp"]).hex()[:80] + ("..." if len(ev["inp"]) > 40 else ""))


def run(ctx):
    cfg = core.cfg_of("MC_Wire.cfg")
    if ctx.quick:
        cfg = cfg.replace("LenSet <- LenAll", "LenSet <- LenQuick").replace("MaxTape = 4", "MaxTape = 3")
    ctx.mc("MC_Wire", cfg, coverage=True, label="parser automaton on all small tapes; all lengths; varint boundaries")
    ctx.require_actions("MC_Wire", ["Feed"])
    events = core.build_events(ctx, gen_inputs(ctx) if ctx.quick else core.rounds(ctx, gen_inputs, 2))
    events += core.suite_events(ctx, ["tests/test_script.py", "tests/test_helper.py", "tests/test_base_wallet.py", "tests/test_keys.py"],
                                ("ScriptSer", "ScriptParse", "VarintEnc", "VarintRead"), len(events), limit=150 if ctx.quick else 2000)
    for e in events[:1] + events[1000:1002] + events[-1:]:
        ctx.sample({"act": e["act"], "inp": str(e["inp"])[:200], "res": str(e["res"])[:200]})
    rj = ctx.validate(MODULE, events)
    core.report_rejects(ctx, events, rj, describe)
    core.binding_selfcheck(ctx, MODULE, [e for e in events if e["id"] not in rj and (e["act"] == "VarintEnc" or (
        e["act"] == "ScriptSer" and all("op" in c or c["d"] for c in e["inp"]["cmds"])))][5:])
    ctx.exhaustive = True
    return ctx.finish(
        "model_checking",
        rule="one case = one call of Script.serialize/raw_serialize/parse or encode_varint/read_varint; exhaustive "
             "parts: element lengths 0..521, all opcode bytes, all tapes up to 3 (quick) / 4 (thorough) bytes over a "
             "13-byte alphabet, every prefix of the per-length serialisations (thorough); distinct = (action, length "
             "band / prefix class / varint width, outcome)",
        assumptions=["zero-length data elements are outside the statement (1..520 bytes) and are not judged",
                     "reading a non-minimal varint is allowed (the statement constrains the writer)"],
        trusted_base=["TLC/SANY", "spec/Wire.tla", "harness projection (acts.py)"],
        checker_cmd="./check C19 --tier " + ctx.tier)


def replay(ctx, path):
    return core.std_replay(ctx, path, MODULE)
