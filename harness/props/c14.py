"""C14 - watch-only wallets reproduce all public data and can never yield private data."""
from .. import core, refprims as R, refwallet as W
from ..core import B
from .c01 import idx4
from .c12 import master_node
from . import c13

MODULE = "Trace_Keys"
PUBVERS = [t for t in sorted(W.VERSIONS) if t[0] == "pub"]
H = 2 ** 31


def gen_inputs(ctx):
    rng, q = ctx.rng, ctx.quick
    out = []
    exports = [[], [44 + H], [44 + H, H, H], [84 + H, 1 + H, 5 + H, 0], [49 + H, H, 7 + H, 1, 12],
               [1, 2, 3 + H, 4, 5, 6, 7], [0], [2 ** 31 - 1, 2 ** 32 - 1]]
    subs = [[], [0], [1], [2 ** 31 - 1], [0, 0], [1, 2 ** 31 - 1, 5]]
    for s in range(2 if q else 12):
        root = master_node(rng.randrange(1, R.N), bytes(rng.randrange(256) for _ in range(32)))
        root["net"] = rng.choice(["main", "test"])
        for ex in exports:
            for t in (PUBVERS if not q else rng.sample(PUBVERS, 2)):
                for sub in ([rng.choice(subs), [rng.randrange(H) for _ in range(rng.randrange(0, 4))]] if q else
                            subs + [[rng.randrange(H) for _ in range(rng.randrange(1, 4))]]):
                    out.append(("Watch", {"root": root, "export": [idx4(i) for i in ex], "route": "node",
                                          "version": B(W.VERSIONS[t].to_bytes(4, "big")), "sub": [idx4(i) for i in sub]},
                                ("watch", len(ex), t, len(sub))))
            # the key exported through the full wallet's own node_extended_keys(): same network, same data
            out.append(("Watch", {"root": root, "export": [idx4(i) for i in ex], "route": "wallet",
                                  "version": B(bytes(4)), "sub": [idx4(i) for i in rng.choice(subs)]},
                        ("watch-wallet-route", len(ex), root["net"])))
    return out


def describe(ev):
    i = ev["inp"]
    return "watch-only wallet from %s of the %s node at depth %d, sub-path of length %d" % (
        "version " + bytes(i["version"]).hex() if i["route"] == "node" else "node_extended_keys()['pub']", i["root"]["net"],
        len(i["export"]), len(i["sub"]))


def mut(e):
    import copy
    if e["res"]["ok"]:
        c = copy.deepcopy(e)
        c["res"]["v"]["priv"][2]["leak"] = True
        return c
    return None


def run(ctx):
    c13.model_runs(ctx)
    bs = c13.behaviours(ctx, 150 if ctx.quick else 3000, 16)
    bs = [b for b in bs if any(s["action"] == "ImportWatch" for s in b)]
    c13.replay_all(ctx, bs, "watch", threaded_groups=0)
    ctx.notes["behaviours_with_import"] = len(bs)
    events = core.build_events(ctx, gen_inputs(ctx))
    for e in events[:1] + events[-1:]:
        ctx.sample({"call": describe(e), "res": str(e["res"])[:300]})
    rj = ctx.validate(MODULE, events, min_shard=10)
    core.report_rejects(ctx, events, rj, describe)
    core.binding_selfcheck(ctx, MODULE, [e for e in events if e["id"] not in rj], mutate=mut)
    return ctx.finish(
        "model_checking",
        rule="bounded model: WatchAgrees / NoPrivateEver / HardenedRefused over all histories; replay: simulated behaviours "
             "containing an import; trace validation: one case = a watch-only wallet built from the extended public key "
             "(6 public versions) of a node at depth 0..7, a non-hardened sub-path, all five addresses and ten private-data "
             "probes; distinct = (export depth, version, sub-path length, outcome)",
        assumptions=["'an explicit error or an empty field' = the request raises or returns None"],
        trusted_base=["TLC/SANY", "spec/HDWallet.tla, Bip32.tla, Address.tla, ExtKey.tla", "hashlib", "harness secp256k1"],
        checker_cmd="./check C14 --tier " + ctx.tier)


def replay(ctx, path):
    rp = core.load_replay(path)
    if "behaviour" in rp or "behaviours" in rp:
        return c13.replay(ctx, path)
    return core.std_replay(ctx, path, MODULE)
