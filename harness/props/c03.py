"""C03 - mnemonic+passphrase -> seed -> master key follows BIP39/BIP32 for all text."""
from .. import core, refprims as R
from ..core import B, T

MODULE = "Trace_Keys"

TEXTS = [
    "abandon abandon abandon abandon abandon abandon abandon abandon abandon abandon abandon about",
    "legal winner thank year wave sausage worth useful legal winner thank yellow",
    "",
    "café", "café",                      # precomposed vs decomposed
    "Å", "Å", "Å",                    # A-ring, Angstrom sign, A + combining ring
    "ﬁ", "①", "ＡＢ", "㍿",    # compatibility characters: fi ligature, circled 1, full-width, square corp.
    "あいこくしん　あいこくしん",    # Japanese with ideographic space
    "한글", "한",             # Hangul syllables vs jamo
    "\U0001f600 \U0001f511",                           # 4-byte UTF-8
    "TREZOR", "ßẞ", "ϓ", "ẛ̣",
    "x" * 129, "é" * 70,                          # longer than one SHA-512 block: the HMAC key gets hashed
    " leading and trailing ", "tab\tnew\nline",
]


def rand_text(rng):
    blocks = [(0x20, 0x7e), (0xa0, 0x17f), (0x300, 0x36f), (0x370, 0x3ff), (0x1100, 0x11ff), (0x2460, 0x24ff),
              (0x3040, 0x30ff), (0x4e00, 0x4fff), (0xac00, 0xacff), (0xfb00, 0xfb06), (0xff01, 0xff5e), (0x1f600, 0x1f64f)]
    n = rng.randrange(0, 12)
    out = []
    for _ in range(n):
        lo, hi = rng.choice(blocks)
        out.append(chr(rng.randrange(lo, hi + 1)))
    return "".join(out)


def gen_inputs(ctx):
    rng, q = ctx.rng, ctx.quick
    out = []
    pairs = []
    for m in TEXTS:
        for p in (TEXTS if not q else [rng.choice(TEXTS), ""]):
            pairs.append((m, p))
    for _ in range(20 if q else 600):
        pairs.append((rand_text(rng), rand_text(rng)))
    if q:
        pairs = pairs[:70]
    for m, p in pairs:
        out.append(("Seed", {"m": T(m), "p": T(p)},
                    ("seed", m.isascii(), p.isascii(), R.nfkd(m) != m, R.nfkd(p) != p, p == "", len(R.utf8(m)) > 128)))
    # code points a string helper might pick as an in-band separator or sentinel (non-characters, controls, separators,
    # private use, the last code point) INSIDE the mnemonic, inside the passphrase and in both: text is text
    Ms = "legal winner thank year wave sausage worth useful legal winner thank yellow"
    for cp in (0x0, 0x1, 0x1c, 0x1e, 0x1f, 0x7f, 0x85, 0xad, 0x200b, 0x2028, 0x2029, 0xe000, 0xf8ff, 0xfdd0, 0xfeff, 0xfffc,
               0xfffd, 0xfffe, 0xffff, 0x1fffe, 0x10ffff, 0x7c, 0x3a):
        c = chr(cp)
        cases = [(Ms[:30] + c + Ms[30:], "TREZOR"), (Ms, "TRE" + c + "ZOR"), (Ms + c, c + "pw"), (c + Ms[:12] + c + Ms[12:], "p" + c)]
        if q:
            cases = [cases[0], cases[cp % 3 + 1]]
        for m_, p_ in cases:
            out.append(("Seed", {"m": T(m_), "p": T(p_)}, ("seed-separator-like-code-point", cp, c in m_, c in p_)))
        out.append(("Construct", {"route": "mnemonic", "m": T(Ms[:30] + c + Ms[30:]), "p": T("pw"), "net": "main"},
                    ("mnemonic-separator-like-code-point", cp)))
    # valid BIP39 sentences that HAPPEN to be valid seed phrases of a neighbouring scheme as well (Electrum: the first hex
    # digits of HMAC-SHA512("Seed version", phrase) are 01 / 100 / 101): still plain BIP39 here.  Searched (1 in 256 / 4096).
    try:
        from btc_hd_wallet.bip39_wordlist import word_list as _wl
        words = [str(w_) for w_ in _wl]
    except Exception:
        words = []
    found_el = {}
    tries = 0
    while words and len(found_el) < 3 and tries < (30000 if q else 120000):
        tries += 1
        ent = bytes(rng.randrange(256) for _ in range(16))
        bits = bin(int.from_bytes(ent, "big"))[2:].zfill(128) + bin(R.sha256(ent)[0])[2:].zfill(8)[:4]
        phrase = " ".join(words[int(bits[j:j + 11], 2)] for j in range(0, 132, 11))
        hx = R.hmac512(b"Seed version", phrase.encode("utf-8")).hex()
        for pre in ("100", "101", "01"):
            if hx.startswith(pre) and pre not in found_el:
                found_el[pre] = phrase
    ctx.notes["bip39_sentences_that_are_electrum_seeds_too"] = {k: True for k in found_el}
    for pre, phrase in sorted(found_el.items()):
        for pw in ("", "TREZOR"):
            out.append(("Seed", {"m": T(phrase), "p": T(pw)}, ("seed-also-electrum", pre)))
        out.append(("Construct", {"route": "mnemonic", "m": T(phrase), "p": T(""), "net": "main"}, ("mnemonic-also-electrum", pre)))
    # pairs that differ only in WHERE the boundary between mnemonic, the literal "mnemonic" and the passphrase lies
    # (their concatenations coincide), each judged right after the other one was asked in the same process
    Mn = "legal winner thank year wave sausage worth useful legal winner thank yellow"
    twins = [((Mn, "mnemonic" + "TREZOR"), (Mn + "mnemonic", "TREZOR")), ((Mn, "mnemonicmnemonic"), (Mn + "mnemonic", "mnemonic")),
             ((Mn + " x", "y"), (Mn + " ", "xy")), (("ab", "c"), ("a", "bc")), ((Mn, ""), (Mn[:-1], Mn[-1:])),
             (("a", "mnemonicb"), ("amnemonic", "b")), ((Mn + "mnemonic", ""), (Mn, "mnemonic"))]
    for a_, b_ in twins:
        for first, second in ((a_, b_), (b_, a_)):
            out.append(("Seed", {"m": T(second[0]), "p": T(second[1]), "warm": [{"m": T(first[0]), "p": T(first[1])}]},
                        ("seed-after-boundary-twin", len(second[1]) == 0)))
    # constructors: one secret through all routes x both networks
    for s in range(6 if q else 120):
        n = rng.choice([16, 20, 24, 28, 32])
        ent = bytes(rng.randrange(256) for _ in range(n)) if s else bytes(16)
        p = rng.choice(["", "TREZOR", "café", "パス", rand_text(rng)])
        for net in ("main", "test"):
            out.append(("Construct", {"route": "entropy", "hex": T(ent.hex()), "p": T(p), "net": net}, ("entropy", n, net, p == "")))
            m = rng.choice(TEXTS[:2])
            out.append(("Construct", {"route": "mnemonic", "m": T(m), "p": T(p), "net": net}, ("mnemonic", net, p == "")))
        m2 = rng.choice(TEXTS)
        out.append(("Construct", {"route": "mnemonic", "m": T(m2), "p": T(p), "net": rng.choice(["main", "test"])},
                    ("mnemonic-unicode", R.nfkd(m2) != m2)))
    for n in (16, 32, 64, 1, 17, 63, 65, 128, 0):
        for _ in range(1 if q else 6):
            seed = bytes(rng.randrange(256) for _ in range(n))
            for net in ("main", "test"):
                out.append(("Construct", {"route": "seed_bytes", "seed": B(seed), "net": net}, ("seed_bytes", n, net)))
                out.append(("Construct", {"route": "seed_hex", "seed": B(seed), "net": net}, ("seed_hex", n, net)))
    # seeds whose BYTES happen to be printable text (hex digits, decimal digits, base64, a sentence): a seed is bytes,
    # whatever it looks like
    for seed in (b"0123456789abcdef" * 8, b"0123456789abcdef" * 4, b"0123456789ABCDEF" * 2, b"7" * 64, b"ab" * 16, b"f" * 128,
                 b"abandon abandon abandon abandon abandon abandon abandon abandon about", b"QUJDREVGR0hJSktMTU5PUFFSU1RVVldYWVo=" * 2,
                 b"0x" + b"00" * 31, b"   padded   seed   bytes   here  "):
        out.append(("Construct", {"route": "seed_bytes", "seed": B(seed), "net": "main"}, ("seed_bytes-looks-like-text", len(seed))))
        out.append(("Construct", {"route": "seed_hex", "seed": B(seed), "net": "test"}, ("seed_hex-looks-like-text", len(seed))))
    # seeds that start (and end) with zero bytes, all-zero and all-0xff seeds: a seed is a byte string, not a number
    for seed in (b"\x00" + bytes(range(1, 64)), b"\x00\x00" + bytes(range(2, 64)), bytes(15) + b"\x01", bytes(63) + b"\x01",
                 bytes(range(1, 63)) + b"\x00\x00", bytes(64), bytes(16), b"\xff" * 64, b"\x00" + b"\xff" * 31):
        for net in (("main", "test") if not q else ("main",)):
            out.append(("Construct", {"route": "seed_bytes", "seed": B(seed), "net": net}, ("seed_bytes-zero-bytes", len(seed))))
            out.append(("Construct", {"route": "seed_hex", "seed": B(seed), "net": net}, ("seed_hex-zero-bytes", len(seed), seed[0] == 0)))
    # the extended-key route is an Import event: the xprv the library itself printed for a mnemonic wallet
    from .. import refwallet as W
    for _ in range(3 if q else 30):
        seed = bytes(rng.randrange(256) for _ in range(64))
        tab = R.Table()
        for net in ("main", "test"):
            rn = W.master(tab, seed, net)
            out.append(("Import", {"s": T(W.ser(tab, rn, W.VERSIONS[("prv", net, "bip44")], True))}, ("xprv-route", net)))
    return out


def describe(ev):
    i = ev["inp"]
    if ev["act"] == "Seed":
        return "bip39_seed_from_mnemonic(%r, %r)" % (core.untext(i["m"])[:30], core.untext(i["p"])[:20])
    if ev["act"] == "Construct":
        return "BaseWallet.from_%s(..., %s)" % (i["route"], i["net"])
    return "BaseWallet.from_extended_key(..)"


def mut(e):
    import copy
    if e["act"] == "Seed" and e["res"]["ok"]:
        c = copy.deepcopy(e)
        c["res"]["v"][63] ^= 1
        return c
    if e["act"] == "Construct" and e["res"]["ok"]:
        c = copy.deepcopy(e)
        c["res"]["v"]["node"]["k"][0] ^= 1
        return c
    return None


def run(ctx):
    ctx.mc("MC_Seed", core.cfg_of("MC_Seed.cfg"), coverage=False,
           label="abstract constructors, every idempotent normalisation of a 4-text alphabet")
    events = core.build_events(ctx, gen_inputs(ctx) if ctx.quick else core.rounds(ctx, gen_inputs, 8))
    events += core.suite_events(ctx, ["tests/test_bip39.py", "tests/test_base_wallet.py"], ("Seed",), len(events),
                                limit=25 if ctx.quick else 400)
    for e in events[3:5] + events[-1:]:
        ctx.sample({"call": describe(e), "res": str(e["res"])[:160]})
    rj = ctx.validate(MODULE, events, min_shard=20)
    core.report_rejects(ctx, events, rj, describe)
    core.binding_selfcheck(ctx, MODULE, [e for e in events if e["id"] not in rj], mutate=mut, n=4)
    return ctx.finish(
        "model_checking",
        rule="one case = one bip39_seed_from_mnemonic call or one wallet constructor call; distinct = (route, ASCII / "
             "normalisation-sensitive / long text classes, seed length, network, outcome). The corpus contains composed vs "
             "decomposed forms, compatibility characters, CJK incl. ideographic space, Hangul, 4-byte UTF-8, >128-byte keys.",
        assumptions=["NFKD comes from Python's unicodedata (the only NFKD available); PBKDF2 is the harness's explicit 2048-round loop "
                     "over its own HMAC; UTF-8 is encoded by the specification",
                     "the extended-key route is judged through Import events (C07 rules)"],
        trusted_base=["TLC/SANY", "spec/Bip39.tla, Bip32.tla", "hashlib.sha512", "unicodedata", "harness secp256k1"],
        checker_cmd="./check C03 --tier " + ctx.tier)


def replay(ctx, path):
    return core.std_replay(ctx, path, MODULE)
