"""C09 - key encodings (WIF, SEC) round-trip and out-of-range keys are rejected."""
from .. import core, refprims as R
from ..core import B, T
from .c01 import b32

MODULE = "Trace_Keys"
N, P = R.N, R.P


def minimal(v):
    return B(v.to_bytes(max(1, (v.bit_length() + 7) // 8), "big"))


def gen_inputs(ctx):
    rng, q = ctx.rng, ctx.quick
    out = []
    ks = [(1, "1"), (2, "2"), (N - 1, "n-1"), (N - 2, "n-2")]
    for i in (range(1, 256) if not q else [1, 7, 8, 64, 128, 255]):
        ks.append((1 << i, "2^i"))
        ks.append(((1 << i) - 1, "2^i-1")) if i > 1 else None
    for z in ((1, 2, 8, 16, 30, 31) if q else range(1, 32)):
        ks.append((rng.randrange(1 << (8 * (32 - z) - 8), 1 << (8 * (32 - z))), "lz%d" % z))
    for _ in range(8 if q else 100):
        ks.append((rng.randrange(1, N), "rand"))
    # scalars whose trailing bytes look like the WIF compression flag / whose leading byte looks like a version
    for v in (0x0101, 0x01 << 8 | 0x01, (0xab << 248) | 0x01, (0x80 << 248) | 0x0101, (0xef << 248) | 1, 257, 0x010101, N - 0x40 + 0):
        ks.append((v % N or 1, "flag-like"))
    for _ in range(4 if q else 30):
        ks.append(((rng.randrange(1, N) >> 8 << 8) | 0x01, "flag-like"))
    # scalars whose FIRST or LAST byte is an ASCII / Latin-1 blank, NUL-adjacent or 0xff (trimming / text handling of raw bytes)
    for b in (0x09, 0x0a, 0x0b, 0x0c, 0x0d, 0x20, 0x85, 0xa0, 0x1c, 0xff, 0x30, 0x78):
        ks.append((((rng.randrange(1, N >> 8)) << 8) | b, "tail-byte-%02x" % b))
        ks.append(((b << 248) | rng.randrange(1 << 247), "head-byte-%02x" % b))
    ks = [(k, c) for k, c in ks if 0 < k < N]
    for k, kc in ks:
        out.append(("PubOf", b32(k), ("pubof", kc)))
        for comp in (True, False):
            for net in ("main", "test"):
                if q and rng.random() < 0.5 and kc not in ("1", "2", "n-1", "n-2", "flag-like"):
                    continue
                out.append(("Wif", {"k": b32(k), "compressed": comp, "net": net}, ("wif", comp, net, kc)))
                payload = bytes([0xef if net == "test" else 0x80]) + k.to_bytes(32, "big") + (b"\x01" if comp else b"")
                out.append(("FromWif", T(R.b58check_enc(payload)), ("fromwif", comp, net, kc)))
        for form in ("bytes", "parse"):
            out.append(("PrivCtor", {"form": form, "v": b32(k)}, ("ctor-valid", form, kc)))
        for form in ("int", "from_int"):
            out.append(("PrivCtor", {"form": form, "v": minimal(k)}, ("ctor-valid", form, kc)))
    # rejections: integers
    for v, c in ((0, "0"), (N, "n"), (N + 1, "n+1"), (2 ** 256 - 1, "2^256-1"), (2 ** 256, "2^256"), (2 ** 300, "2^300")):
        for form in ("int", "from_int"):
            out.append(("PrivCtor", {"form": form, "v": minimal(v)}, ("ctor-bad-int", form, c)))
        if v < 2 ** 256:
            for form in ("bytes", "parse"):
                out.append(("PrivCtor", {"form": form, "v": b32(v)}, ("ctor-bad-scalar", form, c)))
    # rejections: wrong length byte strings 0..40
    for n in range(0, 41):
        if n == 32:
            continue
        for form in ("bytes", "parse"):
            v = bytes(rng.randrange(1, 256) for _ in range(n))
            out.append(("PrivCtor", {"form": form, "v": B(v)}, ("ctor-bad-length", form, n < 32)))
            if n in (31, 33):
                out.append(("PrivCtor", {"form": form, "v": B(b"\x00" * (n - 1) + b"\x01")}, ("ctor-bad-length-small", form, n)))
    # wrong-LENGTH byte strings whose numeric value is a valid key that was used earlier in the same process
    for k, kc in rng.sample(ks, 4 if q else 30):
        kb = k.to_bytes(32, "big")
        for v, c in ((b"\x00" + kb, "33"), (b"\x00\x00" + kb, "34"), (kb.lstrip(b"\x00")[:31] if kb[0] == 0 else (k >> 8).to_bytes(31, "big"), "31"),
                     (kb[1:] if kb[0] == 0 else kb[:31], "31b")):
            for form in ("bytes", "parse"):
                out.append(("PrivCtor", {"form": form, "v": B(v), "warm": True}, ("ctor-bad-length-after-valid-twin", form, c)))
    # WIF payloads that are malformed but correctly checksummed
    for ver in (0x80, 0xef):
        for body, c in ((b"", "empty"), (b"\x01" * 31, "31"), (b"\x01" * 33, "33-no-flag"), (b"\x01" * 32 + b"\x02", "flag=2"),
                        (b"\x01" * 32 + b"\x01\x01", "34"), (bytes(32), "zero"), (N.to_bytes(32, "big"), "n"),
                        (bytes(32) + b"\x01", "zero-compressed"), (N.to_bytes(32, "big") + b"\x01", "n-compressed"),
                        (b"\xff" * 32, "ff"), (b"\xff" * 32 + b"\x01", "ff-compressed")):
            out.append(("FromWif", T(R.b58check_enc(bytes([ver]) + body)), ("fromwif-malformed", ver, c)))
    good = R.b58check_enc(b"\x80" + (12345).to_bytes(32, "big") + b"\x01")
    for s in (good[:-1], good[:10] + ("2" if good[10] != "2" else "3") + good[11:], "", "K", good + "1"):
        out.append(("FromWif", T(s), ("fromwif-bad-checksum",)))
    # SEC parsing: valid both forms, both parities, x with leading zeros
    pts = []
    j = 1
    while len([p for p in pts if p[1] == "lzx"]) < (1 if q else 3) and j < 40000:
        pt = R.pt_mul(j)
        if pt[0] < (1 << 248):
            pts.append((pt, "lzx"))
        j += 1
    for k, kc in rng.sample(ks, 12 if q else 80):
        pts.append((R.pt_mul(k), kc))
    for pt, c in pts:
        out.append(("SecParse", B(R.sec(pt, True)), ("sec-valid", "c", pt[1] & 1, c == "lzx")))
        out.append(("SecParse", B(R.sec(pt, False)), ("sec-valid", "u", pt[1] & 1, c == "lzx")))
        # wrong prefixes with a valid x
        for pre in (0, 1, 5, 8, 0xff):
            out.append(("SecParse", B(bytes([pre]) + pt[0].to_bytes(32, "big")), ("sec-bad-prefix", pre)))
        # uncompressed with y off the curve, hybrid (not judged)
        out.append(("SecParse", B(b"\x04" + pt[0].to_bytes(32, "big") + ((pt[1] + 1) % P).to_bytes(32, "big")), ("sec-off-curve-u",)))
        out.append(("SecParse", B(bytes([6 + (pt[1] & 1)]) + pt[0].to_bytes(32, "big") + pt[1].to_bytes(32, "big")), ("sec-hybrid",)))
        out.append(("SecParse", B(b"\x05" + pt[0].to_bytes(32, "big") + pt[1].to_bytes(32, "big")), ("sec-bad-prefix-65",)))
    # x with no square root, x >= p
    nosqrt = []
    x = rng.randrange(P)
    while len(nosqrt) < (8 if q else 32):
        if R.lift_x(x, 0) is None:
            nosqrt.append(x)
        x = (x + 1) % P
    for x in nosqrt:
        for pre in (2, 3):
            out.append(("SecParse", B(bytes([pre]) + x.to_bytes(32, "big")), ("sec-no-sqrt", pre)))
    for x in (P, P + 1, 2 ** 256 - 1):
        for pre in (2, 3):
            out.append(("SecParse", B(bytes([pre]) + x.to_bytes(32, "big")), ("sec-x>=p", pre)))
    out.append(("SecParse", B(b"\x04" + P.to_bytes(32, "big") + (1).to_bytes(32, "big")), ("sec-x>=p-u",)))
    # public NODES whose key bytes are not a curve point (by constructor, parsed from bytes / from an xpub string,
    # imported as a wallet): nothing may be produced from them
    bad = [bytes([pre]) + x.to_bytes(32, "big") for x in nosqrt[:(2 if q else 8)] for pre in (2, 3)] + \
          [bytes([2]) + P.to_bytes(32, "big"), bytes([3]) + (2 ** 256 - 1).to_bytes(32, "big"), bytes([2]) + bytes(32)]
    for Kb in bad:
        for route in ("ctor", "bytes", "str", "import"):
            out.append(("BadPointNode", {"K": B(Kb), "route": route}, ("node-non-point", route, Kb[1:] >= P.to_bytes(32, "big"))))
    out.append(("FromPoint", {"n": 3}, ("from-point-foreign-curve",)))
    # wrong lengths 0..40 and around 65
    for n in list(range(0, 41)) + [63, 64, 66, 67]:
        if n == 33:
            continue
        out.append(("SecParse", B(bytes([2]) + bytes(rng.randrange(256) for _ in range(max(0, n - 1)))) if n else [],
                    ("sec-bad-length", n < 33, n)))
    return out


def describe(ev):
    if ev["act"] == "FromPoint":
        return "PublicKey.from_point(<points of other curves>)"
    if ev["act"] == "BadPointNode":
        return "public node (%s) with key %s.. that is not a curve point" % (ev["inp"]["route"], bytes(ev["inp"]["K"]).hex()[:18])
    i = ev["inp"]
    if ev["act"] == "PrivCtor":
        return "PrivateKey<%s>(%s)" % (i["form"], bytes(i["v"]).hex()[:40])
    if ev["act"] == "Wif":
        return "PrivateKey(%s..).wif(compressed=%s, %s)" % (bytes(i["k"]).hex()[:12], i["compressed"], i["net"])
    if ev["act"] == "FromWif":
        return "PrivateKey.from_wif(%r)" % core.untext(i)
    if ev["act"] == "SecParse":
        return "PublicKey.parse(%s)" % bytes(i).hex()[:70]
    return "PrivateKey(%s..).K.sec()" % bytes(i).hex()[:16]


def mut(e):
    import copy
    if e["act"] == "PubOf" and e["res"]["ok"]:
        c = copy.deepcopy(e)
        c["res"]["v"]["secc"][9] ^= 1
        return c
    if e["act"] == "PrivCtor" and e["res"]["ok"]:
        c = copy.deepcopy(e)
        c["res"]["v"]["k"][31] ^= 1
        return c
    return None


def run(ctx):
    ctx.mc("MC_KeyCodec", core.cfg_of("MC_KeyCodec.cfg"),
           label="toy-scale constructor accept-iff-valid, WIF payload round trip; first-character theorem at real scale")
    events = core.build_events(ctx, gen_inputs(ctx) if ctx.quick else core.rounds(ctx, gen_inputs, 10))
    events += core.suite_events(ctx, ["tests/test_keys.py", "tests/test_bip32.py", "tests/test_bip84.py", "tests/test_bip85.py"],
                                ("Wif", "FromWif", "SecParse"), len(events), limit=100 if ctx.quick else 1500)
    for e in events[:1] + events[9:10] + events[-1:]:
        ctx.sample({"call": describe(e), "res": str(e["res"])[:200]})
    rj = ctx.validate(MODULE, events, min_shard=40)
    core.report_rejects(ctx, events, rj, describe)
    core.binding_selfcheck(ctx, MODULE, [e for e in events if e["id"] not in rj], mutate=mut)
    return ctx.finish(
        "model_checking",
        rule="one case = one PrivateKey construction (bytes/int/from_int/parse), wif()/from_wif, K.sec()/PublicKey.parse; "
             "distinct = (action, form/flavour, scalar class or rejection class, outcome)",
        assumptions=["hybrid (06/07) SEC encodings and raw 64-byte points are outside the stated rejection domain and not judged",
                     "WIF strings whose version byte is neither 80 nor ef are not judged"],
        trusted_base=["TLC/SANY", "spec/KeyCodec.tla, Base58.tla", "harness secp256k1 (self-tested)", "hashlib", "harness projection"],
        checker_cmd="./check C09 --tier " + ctx.tier)


def replay(ctx, path):
    return core.std_replay(ctx, path, MODULE)
