"""C12 - BIP85 child secrets equal the specified derivation for every app and index."""
from .. import core, refprims as R
from ..core import B
from .c01 import b32, idx4

MODULE = "Trace_Keys"
N = R.N


def ix(i):
    a = abs(i)
    return {"neg": i < 0, "mag": B(a.to_bytes(max(1, (a.bit_length() + 7) // 8), "big"))}


def master_node(k, c):
    return {"prv": True, "k": b32(k), "c": B(c), "depth": 0, "idx": idx4(0), "pfp": B(bytes(4)), "net": "main"}


def gen_inputs(ctx):
    rng, q = ctx.rng, ctx.quick
    out = []
    # the BIP85 reference master key + random ones
    vec = master_node(int("ebe0e1d3a0bd8e7e0aef6db1fcbb8b7b1a7e41f5c5b8bd0f2d09f2dc6e0a2a2b", 16) % N or 1, bytes(range(32)))
    masters = [vec] + [master_node(rng.randrange(1, N), bytes(rng.randrange(256) for _ in range(32))) for _ in range(1 if q else 3)]
    masters.append(master_node(1, bytes(32)))
    good_idx = [0, 1, 2 ** 31 - 1]
    for m in masters:
        idxs = good_idx + [rng.randrange(2 ** 31)]
        for i in (idxs if not q else [0, rng.choice(idxs[1:])]):
            for wc in (12, 15, 18, 21, 24):
                out.append(("Bip85", {"master": m, "app": "mnemonic", "p": wc, "ix": ix(i)}, ("mnemonic", wc, i in good_idx)))
            out.append(("Bip85", {"master": m, "app": "wif", "p": 0, "ix": ix(i)}, ("wif", i in good_idx)))
            out.append(("Bip85", {"master": m, "app": "xprv", "p": 0, "ix": ix(i)}, ("xprv", i in good_idx)))
        # every byte count 16..64 and every password length 20..86
        for nb in range(16, 65):
            i = rng.choice(idxs)
            out.append(("Bip85", {"master": m, "app": "hex", "p": nb, "ix": ix(i)}, ("hex", nb)))
        for ln in range(20, 87):
            i = rng.choice(idxs)
            out.append(("Bip85", {"master": m, "app": "pwd", "p": ln, "ix": ix(i)}, ("pwd", ln)))
        if q:
            break
    # indexes at which the private key AT THE BIP85 PATH starts with a zero byte (about 1 in 256; searched with
    # the harness's own BIP32 walk) - the HMAC must still run over all 32 bytes
    from .. import refwallet as W
    found = 0
    for mm in masters[:2]:
        tab = R.Table()
        rm = W.RNode(bytes(mm["k"]), R.pubkey(int.from_bytes(bytes(mm["k"]), "big")), bytes(mm["c"]), 0, 0, bytes(4), "main")
        for app, p in (("wif", 0), ("hex", 32)):
            parent = W.derive(tab, rm, W.bip85_path(app, p, 0)[:-1])
            for i in range(0, 700 if q else 3000):
                I = R.hmac512(parent.c, b"\x00" + parent.k + (i + 2 ** 31).to_bytes(4, "big"))
                kk = (int.from_bytes(I[:32], "big") + int.from_bytes(parent.k, "big")) % N
                if kk >> 248 == 0 and int.from_bytes(I[:32], "big") < N and kk:
                    out.append(("Bip85", {"master": mm, "app": app, "p": p, "ix": ix(i)}, ("leading-zero-path-key", app)))
                    found += 1
                    break
    ctx.notes["bip85_path_keys_with_leading_zero_found"] = found
    # requests on ONE object in Python's equivalent spellings (positional, keywords in either order, a defaulted
    # parameter left out): the answer depends on the parameters' VALUES AND NAMES, not on how the call was written
    # nor on what was asked before
    def rq(app, p_, i_, spell):
        return {"app": app, "p": p_, "ix": ix(i_), "spell": spell}
    pairs = [(rq("hex", 32, 0, "param-only"), rq("hex", 32, 32, "index-only")),
             (rq("hex", 20, 40, "pos"), rq("hex", 40, 20, "kw-reversed")),
             (rq("pwd", 21, 0, "param-only"), rq("pwd", 21, 21, "index-only")),
             (rq("pwd", 30, 40, "pos"), rq("pwd", 40, 30, "kw-reversed")),
             (rq("mnemonic", 12, 24, "pos"), rq("mnemonic", 24, 12, "kw-reversed")),
             (rq("mnemonic", 24, 0, "param-only"), rq("mnemonic", 24, 24, "index-only")),
             (rq("wif", 0, 5, "pos"), rq("wif", 0, 5, "kw-all")), (rq("xprv", 0, 1, "kw-all"), rq("xprv", 0, 1, "pos"))]
    for first, second in pairs:
        for a_, b_ in ((first, second), (second, first)):
            out.append(("Bip85", dict(b_, master=masters[0], history=[a_]), ("spellings-on-one-object", b_["app"], b_["spell"])))
    for _ in range(6 if q else 120):
        app = rng.choice(["hex", "pwd", "mnemonic"])
        vals = {"hex": [16, 20, 32, 33, 64], "pwd": [20, 21, 30, 86], "mnemonic": [12, 18, 24]}[app]
        hist = [rq(app, rng.choice(vals), rng.choice([0, 1, 12, 20, 21, 24, 32]), rng.choice(["pos", "kw-all", "kw-reversed", "index-only", "param-only"]))
                for _ in range(rng.randrange(1, 4))]
        last = rq(app, rng.choice(vals), rng.choice([0, 1, 12, 20, 21, 24, 32]), rng.choice(["pos", "kw-all", "kw-reversed", "index-only", "param-only"]))
        out.append(("Bip85", dict(last, master=rng.choice(masters), history=hist), ("spellings-random-history", app)))
    # the BIP85 master is a node derived in this process from another node (it has a parent object)
    from .. import refwallet as W2
    for app, p_ in (("mnemonic", 12), ("wif", 0), ("xprv", 0), ("hex", 32), ("pwd", 21)) if not q else (("wif", 0), ("hex", 32)):
        root_ = masters[0]
        ci = rng.choice([0, 2 ** 31 + 3, 7])
        tabd = R.Table()
        rr = W2.RNode(bytes(root_["k"]), R.pubkey(int.from_bytes(bytes(root_["k"]), "big")), bytes(root_["c"]), 0, 0, bytes(4), "main")
        ch = W2.ckd(tabd, rr, ci)
        child = {"prv": True, "k": B(ch.k), "c": B(ch.c), "depth": 1, "idx": idx4(ci), "pfp": B(ch.pfp), "net": "main"}
        out.append(("Bip85", {"master": child, "derived_from": {"root": root_, "i": idx4(ci)}, "app": app, "p": p_, "ix": ix(1)},
                    ("master-is-a-derived-node", app)))
    # capacity: a request, then more than a thousand distinct other requests on the same object, then the request again
    for app, p_, i_ in (("hex", 16, 0), ("wif", 0, 0), ("mnemonic", 12, 1)) if not q else (("hex", 16, 0),):
        out.append(("Bip85", dict(rq(app, p_, i_, "kw-all"), master=masters[0], history=[rq(app, p_, i_, "kw-all")], bulk=1100 if q else 4400),
                    ("after-many-other-requests", app)))
    # wallets come and go: dozens of other masters answered the same question in this process, were dropped and
    # collected, before the judged one is built (object identities get re-used)
    for app, p_ in (("mnemonic", 12), ("wif", 0), ("xprv", 0), ("hex", 32), ("pwd", 21)):
        for r_ in range(1 if q else 4):
            out.append(("Bip85", dict(rq(app, p_, r_, "kw-all"), master=masters[(r_ + 1) % len(masters)], churn=40 if q else 120),
                        ("after-many-dropped-masters", app)))
    # two DIFFERENT masters with the SAME 4-byte fingerprint (cd9258b3, a birthday pair of 16-byte seeds), asked the same
    # question one after the other in one process: whatever is remembered between calls must be remembered per KEY,
    # not per short identifier
    twins = []
    for sd in ("7bee9dfd28a669f86d855cf2c6543794", "3eb5458358ca365bb3f4fb41f8c65947"):
        rn = W.master(R.Table(), bytes.fromhex(sd), "main")
        twins.append(master_node(int.from_bytes(rn.k, "big"), rn.c))
    assert R.hash160(R.pubkey(int.from_bytes(bytes(twins[0]["k"]), "big")))[:4] == R.hash160(R.pubkey(int.from_bytes(bytes(twins[1]["k"]), "big")))[:4]
    for a_, b_ in ((0, 1), (1, 0)):
        for app, p_ in (("mnemonic", 12), ("mnemonic", 24), ("wif", 0), ("xprv", 0), ("hex", 32), ("pwd", 21)):
            out.append(("Bip85", {"master": twins[b_], "warm": [twins[a_]], "app": app, "p": p_, "ix": ix(0)},
                        ("same-fingerprint-masters", app)))
    m = masters[-1]
    # out-of-range parameters on both sides of every bound
    for wc in list(range(0, 31)):
        if wc not in (12, 15, 18, 21, 24):
            out.append(("Bip85", {"master": m, "app": "mnemonic", "p": wc, "ix": ix(0)}, ("mnemonic-bad", wc)))
    for nb in (0, 1, 15, 65, 66, 80, 128):
        out.append(("Bip85", {"master": m, "app": "hex", "p": nb, "ix": ix(0)}, ("hex-bad", nb)))
    for ln in (0, 1, 19, 87, 88, 100):
        out.append(("Bip85", {"master": m, "app": "pwd", "p": ln, "ix": ix(0)}, ("pwd-bad", ln)))
    # parameters FAR from the bounds that mean something in a neighbouring vocabulary (entropy bits for word counts, bit
    # counts for byte counts, word counts for lengths ...), negative ones, and a sweep of everything up to 300
    alias = [128, 160, 192, 224, 256, 132, 165, 198, 231, 264, 512, 1024, 2048, 39, 32, 64, 16, 3, 6, 8, -12, -24, -1]
    sweep = alias + (list(range(31, 301)) if not q else rng.sample(range(31, 301), 12))
    for v in sweep:
        for app, lo, hi, okset in (("mnemonic", 12, 24, (12, 15, 18, 21, 24)), ("hex", 16, 64, None), ("pwd", 20, 86, None)):
            legal = (v in okset) if okset else (lo <= v <= hi)
            if not legal and (not q or v in alias or rng.random() < 0.5):
                out.append(("Bip85", {"master": m, "app": app, "p": v, "ix": ix(rng.choice([0, 1]))}, (app + "-far-out", v in alias, v < 0)))
    # indexes that are numbers but not integers (i + 1/2 as float / Decimal / Fraction): refused, not rounded
    for app, p_ in (("mnemonic", 12), ("wif", 0), ("xprv", 0), ("hex", 32), ("pwd", 21)):
        for i_, ty in ((1, "float"), (0, "float"), (2 ** 31 - 1, "float"), (2, "decimal"), (7, "fraction"), (-1, "float")):
            d = ix(abs(i_))
            d.update(neg=i_ < 0, frac=True, type=ty)
            out.append(("Bip85", {"master": m, "app": app, "p": p_, "ix": d}, ("non-integral-index", app, ty)))
    # out-of-range indexes for every application, incl. negative ones
    for i in (-1, -2, -(2 ** 31), -(2 ** 31) - 1, 2 ** 31, 2 ** 31 + 1, 2 ** 32 - 1, 2 ** 32, 2 ** 40):
        for app, p in (("mnemonic", 12), ("wif", 0), ("xprv", 0), ("hex", 32), ("pwd", 21)):
            out.append(("Bip85", {"master": rng.choice(masters), "app": app, "p": p, "ix": ix(i)}, ("bad-index", app, i < 0, abs(i) >= 2 ** 32)))
    # C18 clause: secrets that are zero or not below the curve order (substituted entropy)
    for app in ("wif", "xprv"):
        for val, cls in ((0, "zero"), (N, "n"), (N + 1, "n+1"), (2 ** 256 - 1, "2^256-1"), (N - 1, "n-1 valid"), (1, "1 valid")):
            other = bytes(rng.randrange(256) for _ in range(32))
            half = val.to_bytes(32, "big")
            E = half + other if app == "wif" else other + half
            out.append(("Bip85", {"master": m, "app": app, "p": 0, "ix": ix(3), "prf": {"entropy": B(E)}}, ("chosen", app, cls)))
        # the OTHER half being invalid must not matter
        good = (12345).to_bytes(32, "big")
        for oth in (N, 0, 2 ** 256 - 1, N + 1):
            half = oth.to_bytes(32, "big")
            E = good + half if app == "wif" else half + good
            out.append(("Bip85", {"master": m, "app": app, "p": 0, "ix": ix(3), "prf": {"entropy": B(E)}}, ("chosen-other-half", app, oth == N)))
    return out


def describe(ev):
    i = ev["inp"]
    v = int.from_bytes(bytes(i["ix"]["mag"]), "big") * (-1 if i["ix"]["neg"] else 1)
    return "bip85.%s(%sindex=%d)%s" % (i["app"], ("%d, " % i["p"]) if i["app"] in ("mnemonic", "hex", "pwd") else "", v,
                                        " [substituted entropy]" if i.get("prf") else "")


def site(ev, clause):
    return "bip85." + ev["inp"]["app"]


def mut(e):
    import copy
    if e["res"]["ok"] and len(e["res"]["v"]) > 5:
        c = copy.deepcopy(e)
        c["res"]["v"][5] = 65 if c["res"]["v"][5] != 65 else 66
        return c
    return None


def run(ctx):
    ctx.mc("MC_Bip85", core.cfg_of("MC_Bip85.cfg"), label="parameter space: word counts 0..30, byte counts 0..80, lengths 0..100, index classes; path injectivity")
    events = core.build_events(ctx, gen_inputs(ctx) if ctx.quick else core.rounds(ctx, gen_inputs, 8))
    events += core.suite_events(ctx, ["tests/test_bip85.py"], ("Bip85",), len(events), limit=24 if ctx.quick else 400)
    for e in events[:2] + events[-1:]:
        ctx.sample({"call": describe(e), "res": str(e["res"])[:160]})
    rj = ctx.validate(MODULE, events, min_shard=20)
    core.report_rejects(ctx, events, rj, describe, site)
    core.binding_selfcheck(ctx, MODULE, [e for e in events if e["id"] not in rj], mutate=mut)
    ctx.exhaustive = True
    return ctx.finish(
        "model_checking",
        rule="one case = one BIP85DeterministicEntropy application call; exhaustive over all five word counts, all byte counts "
             "16..64, all password lengths 20..86; out-of-range parameters on both sides of every bound; indexes 0, 1, 2^31-1, "
             "random, negative and >= 2^31; substituted entropy for the key-validity branch; distinct = (app, parameter, index "
             "class, outcome)",
        assumptions=["HMAC-SHA512, SHA-256, double SHA-256 and k*G are oracle tables", "BIP85 WIF/xprv are mainnet-encoded by definition"],
        trusted_base=["TLC/SANY", "spec/Bip85.tla, Bip32.tla, Bip39.tla, Base58.tla", "hashlib", "harness secp256k1"],
        checker_cmd="./check C12 --tier " + ctx.tier)


def replay(ctx, path):
    return core.std_replay(ctx, path, MODULE)
