"""Event constructors: one function per trace action.  Each executes ONE public
call of the implementation under test (imported from /repo's working tree),
projects the outcome to JSON and fills the oracle table from refprims.  The
same functions re-execute an event from a replay file."""
import json
import os

from . import refprims as R
from .core import B, T, untext

ACTS = {}


def act(fn):
    ACTS[fn.__name__] = fn
    return fn


def call(fn, *a, **kw):
    """Run one call of the code under test -> ('ok', value) / ('err', exc)."""
    try:
        return True, fn(*a, **kw)
    except Exception as ex:      # any exception is "an error" (class never constrained)
        return False, ex


def argform(inp, n=2):
    """which of n equivalent spellings of the call to use (keyword / positional, list / tuple): a function of the
    input alone, so that a replay makes the same call"""
    import zlib
    return zlib.crc32(json.dumps(inp, sort_keys=True).encode("utf-8")) % n


def res_of(ok, v, proj=lambda x: x):
    if ok:
        return {"ok": True, "v": proj(v)}
    return {"ok": False, "exc": type(v).__name__}


def make(name, inp, eid=0):
    """Build the event for action `name` on JSON input `inp`."""
    tab = R.Table()
    ev = {"id": eid, "act": name, "inp": inp}
    extra = ACTS[name](inp, tab, ev)
    if extra:
        ev.update(extra)
    ev["o"] = tab.rows
    return ev


# ----------------------------------------------------------------- C10 base58
@act
def B58Enc(inp, tab, ev):
    from btc_hd_wallet import helper
    ok, v = call(helper.encode_base58, bytes(inp))
    ev["res"] = res_of(ok, v, T)


@act
def B58Dec(inp, tab, ev):
    from btc_hd_wallet import helper
    ok, v = call(helper.decode_base58, untext(inp))
    ev["res"] = res_of(ok, v, B)


@act
def B58EncCheck(inp, tab, ev):
    from btc_hd_wallet import helper
    tab.hash256(bytes(inp))
    ok, v = call(helper.encode_base58_checksum, bytes(inp))
    ev["res"] = res_of(ok, v, T)


@act
def B58DecCheck(inp, tab, ev):
    from btc_hd_wallet import helper
    s = untext(inp)
    body = R.b58check_body(s)
    if body is not None:
        tab.hash256(body)
    ok, v = call(helper.decode_base58_checksum, s)
    ev["res"] = res_of(ok, v, B)


# ---------------------------------------------------------------- C19 wire
def cmds_to_py(cmds):
    return [c["op"] if "op" in c else bytes(c["d"]) for c in cmds]


def cmds_to_json(cmds):
    return [{"op": c} if isinstance(c, int) else {"d": B(c)} for c in cmds]


def le_trim(n):
    return B(n.to_bytes((n.bit_length() + 7) // 8, "little"))


@act
def ScriptSer(inp, tab, ev):
    from btc_hd_wallet.script import Script
    cmds = cmds_to_py(inp["cmds"])
    if inp.get("built_in_steps") is not None:
        # the script object is built incrementally: serialised after the first k commands, then the rest is added to
        # its public command list in place; what is judged is the serialisation of the FINAL script
        k = inp["built_in_steps"]
        sc = Script(cmds[:k])
        call(sc.raw_serialize)
        call(sc.serialize)
        for c in cmds[k:]:
            sc.cmds.append(c)
    else:
        sc = Script(cmds)
    ok, v = call(sc.raw_serialize if inp["raw"] else sc.serialize)
    ev["res"] = res_of(ok, v, B)


class ShortReads:
    """a readable stream that hands out at most `chunk` bytes per read() call (what pipes and sockets do)"""

    def __init__(self, data, chunk):
        self._d, self._p, self._c = bytes(data), 0, max(1, chunk)

    def read(self, n=-1):
        if n is None or n < 0:
            n = len(self._d) - self._p
        n = min(n, self._c)
        b = self._d[self._p:self._p + n]
        self._p += len(b)
        return b

    def tell(self):
        return self._p

    def readable(self):
        return True


def _stream_for(inp, ev):
    """BytesIO for most inputs; for some (a function of the input) a short-reading stream, recorded in the event"""
    from io import BytesIO
    f = argform(inp, 5)
    if f == 0 and len(inp) > 2:
        ev["stream"] = "short-reads"
        return ShortReads(bytes(inp), 1 + len(inp) % 3)
    return BytesIO(bytes(inp))


@act
def ScriptParse(inp, tab, ev):
    from btc_hd_wallet.script import Script
    s = _stream_for(inp, ev)
    ok, v = call(Script.parse, s)
    def view(sc):
        d = {"cmds": cmds_to_json(sc.cmds), "used": s.tell()}
        ok2, raw = call(sc.raw_serialize)          # the object parse() returned, serialised again
        d["reser"] = {"ok": True, "bytes": B(raw)} if ok2 else {"ok": False, "bytes": []}
        return d
    ev["res"] = res_of(ok, v, view)


@act
def VarintEnc(inp, tab, ev):
    from btc_hd_wallet import helper
    ok, v = call(helper.encode_varint, int.from_bytes(bytes(inp), "little"))
    ev["res"] = res_of(ok, v, B)


@act
def VarintRead(inp, tab, ev):
    from btc_hd_wallet import helper
    s = _stream_for(inp, ev)
    ok, v = call(helper.read_varint, s)
    ev["res"] = res_of(ok, v, lambda n: {"val": le_trim(n), "used": s.tell()})


# -------------------------------------------------------------- C11 bech32
@act
def SegwitEnc(inp, tab, ev):
    from btc_hd_wallet import bech32
    ok, v = call(bech32.encode, untext(inp["hrp"]), inp["ver"], list(inp["prog"]))
    if ok and v is None:
        ev["res"] = {"ok": False, "exc": "None"}
    else:
        ev["res"] = res_of(ok, v, T)


@act
def SegwitDec(inp, tab, ev):
    from btc_hd_wallet import bech32
    ok, v = call(bech32.decode, untext(inp["hrp"]), untext(inp["addr"]))
    if ok and (v[0] is None or v[1] is None):
        ev["res"] = {"ok": False, "exc": "None"}
    else:
        ev["res"] = res_of(ok, v, lambda t: {"ver": t[0], "prog": list(t[1])})


# ------------------------------------------------------------------ C17 paths
def idx_json(v):
    """child number -> 4 big-endian bytes, or [-1] when it is not a 32-bit number."""
    if isinstance(v, int) and not isinstance(v, bool) and 0 <= v < 2 ** 32:
        return B(v.to_bytes(4, "big"))
    return [-1]


def node_json(n):
    """projection of a Prv/PubKeyNode to the abstract node record"""
    from btc_hd_wallet.bip32 import PrvKeyNode
    d = {"c": B(n.chain_code), "depth": n.depth, "idx": idx_json(n.index), "pfp": B(n.parent_fingerprint),
         "net": "test" if n.testnet else "main", "prv": type(n) is PrvKeyNode}
    if type(n) is PrvKeyNode:
        # the raw attribute (observation point .key); parsed nodes carry the 00 pad
        raw = bytes(n.key)
        d["k"] = B(raw[1:] if len(raw) == 33 and raw[0] == 0 else raw)
    try:
        d["K"] = B(n.public_key.sec())
    except Exception:
        d["K"] = []          # the node holds key material the library itself cannot use
    return d


def ref_parse_path(s):
    """Harness-side reading of a path string, used ONLY to decide which
    iterated-derivation tables to attach (candidate index lists)."""
    toks = s.split("/")
    while len(toks) > 1 and toks[-1] == "":
        toks.pop()                         # trailing '/'
    out = []
    for t in toks[1:]:
        hard = t[-1:] in ("'", "h")
        body = t[:-1] if hard else t
        try:
            v = int(body)                  # Python's own numeral grammar (blanks around, '+', '_' between digits)
        except ValueError:
            return None
        if v < 0:
            return None
        if v >= 2 ** 32 or (hard and v >= 2 ** 31):
            return None
        out.append(v + (2 ** 31 if hard else 0))
    return out


WALLETS = {}


def fixed_wallet(name):
    """deterministic wallets shared by path / derivation events: name = '<net>:<seedhex>'"""
    from btc_hd_wallet import PaperWallet
    if name not in WALLETS:
        net, seed = name.split(":")
        # "xkey:<extended key>": a wallet imported from an extended key (e.g. an account-level private key)
        WALLETS[name] = PaperWallet.from_extended_key(seed) if net == "xkey" else PaperWallet.from_bip39_seed_hex(seed, testnet=(net == "test"))
    return WALLETS[name]


def fresh_wallet(name):
    from btc_hd_wallet import PaperWallet
    net, seed = name.split(":")
    if net == "xkey":
        return PaperWallet.from_extended_key(seed)
    return PaperWallet.from_bip39_seed_hex(seed, testnet=(net == "test"))


@act
def PathParse(inp, tab, ev):
    from btc_hd_wallet.wallet_utils import Bip32Path
    ok, v = call(lambda: Bip32Path.parse(untext(inp)))
    if ok:
        ok, v = call(lambda: {"list": [idx_json(x) for x in v.to_list()], "str": T(str(v)), "private": bool(v.private)})
    ev["res"] = res_of(ok, v)


@act
def PathProps(inp, tab, ev):
    from btc_hd_wallet.wallet_utils import Bip32Path, Bip

    def go():
        p = Bip32Path.parse(untext(inp))
        return {"bip44": bool(p.bip44), "bip49": bool(p.bip49), "bip84": bool(p.bip84), "mainnet": bool(p.bitcoin_mainnet),
                "testnet": bool(p.bitcoin_testnet), "external": bool(p.external_chain), "bip": int(Bip(p.bip()).name[3:]), "mark": T(p.m)}
    ok, v = call(go)
    ev["res"] = res_of(ok, v)


@act
def ByPath(inp, tab, ev):
    s = untext(inp["path"])
    w = fixed_wallet(inp["wallet"])
    ok, v = call(w.by_path, s)
    ev["res"] = res_of(ok, v, lambda n: {"node": node_json(n), "repr": T(str(n))})
    folds = []
    cand = ref_parse_path(s)
    lists = []
    if cand is not None:
        lists.append(cand)
        if len(cand) > 5:
            lists.append(cand[:5])
    else:
        head = "/".join(s.split("/")[:6])
        c5 = ref_parse_path(head)
        if c5 is not None and len(s.split("/")) > 6:
            lists.append(c5)
    for l in lists:
        node = fresh_wallet(inp["wallet"]).master
        try:
            for i in l:
                node = node.ckd(i)
            folds.append({"list": [idx_json(i) for i in l], "node": node_json(node), "repr": T(str(node))})
        except Exception:
            pass
    ev["fold"] = folds


# ------------------------------------------------- C01 / C02 / C18 derivation
def make_prf(spec):
    """chosen-PRF description (JSON) -> function (key, msg) -> 64 bytes or None (= real HMAC).
    {"all": [64]}                      every HMAC-SHA512 query gets this output
    {"by_index": {"<i>": [64]}, "master": [64]}  chosen by the ser32(i) suffix of the message"""
    if not spec:
        return None

    def prf(key, msg):
        if "all" in spec:
            return bytes(spec["all"])
        if key == b"bip-entropy-from-k":
            return bytes(spec["entropy"]) if "entropy" in spec else None
        if key == b"Bitcoin seed" and "master" in spec:
            return bytes(spec["master"])
        if len(msg) >= 4 and key != b"Bitcoin seed":
            i = str(int.from_bytes(msg[-4:], "big"))
            if i in spec.get("by_index", {}):
                return bytes(spec["by_index"][i])
        return None
    return prf


def py_node(j):
    """abstract node record (JSON) -> Prv/PubKeyNode built through the public constructor"""
    from btc_hd_wallet.bip32 import PrvKeyNode, PubKeyNode
    kw = dict(chain_code=bytes(j["c"]), index=int.from_bytes(bytes(j["idx"]), "big"), depth=j["depth"],
              testnet=(j["net"] == "test"), parent_fingerprint=bytes(j["pfp"]))
    if j.get("parent") is not None:
        # the node is linked to a parent OBJECT (a fresh one, nothing derived from it yet) instead of being given the
        # four fingerprint bytes: the fingerprint then comes from that object
        kw.pop("parent_fingerprint")
        kw["parent"] = py_node(j["parent"])
    if j["prv"]:
        return PrvKeyNode(key=bytes(j["k"]), **kw)
    return PubKeyNode(key=bytes(j["K"]), **kw)


def ref_node(tab, j):
    from . import refwallet as W
    if j["prv"]:
        k = bytes(j["k"])
        K = tab.ptc(k)
    else:
        k, K = None, bytes(j["K"])
    return W.RNode(k, K, bytes(j["c"]), j["depth"], int.from_bytes(bytes(j["idx"]), "big"), bytes(j["pfp"]), j["net"])


def node_view(n):
    """node + the strings the library prints for it"""
    from btc_hd_wallet.bip32 import PrvKeyNode
    d = {"node": node_json(n)}
    try:
        d["xpub"] = T(n.extended_public_key())
    except Exception:
        d["xpub"] = T("ERR")
    if type(n) is PrvKeyNode:
        try:
            d["xprv"] = T(n.extended_private_key())
        except Exception:
            d["xprv"] = T("ERR")
    return d


def ref_strings(tab, rn):
    from . import refwallet as W
    if rn is None or rn.depth > 255:
        return
    W.ser(tab, rn, W.VERSIONS[("pub", rn.net, "bip44")], False)
    if rn.k is not None:
        W.ser(tab, rn, W.VERSIONS[("prv", rn.net, "bip44")], True)


def queries_json(tap):
    return [{"key": B(q["key"]), "msg": B(q["msg"])} for q in tap.sha512_queries()]


@act
def Master(inp, tab, ev):
    from btc_hd_wallet.bip32 import PrvKeyNode
    from . import refwallet as W
    from .recorders import PrfTap
    prf = make_prf(inp.get("prf"))
    seed = bytes(inp["seed"])
    rn = W.master(tab, seed, inp["net"], prf)
    ref_strings(tab, rn)
    with PrfTap(prf) as tap:
        ok, v = call(PrvKeyNode.master_key, seed, inp["net"] == "test") if argform(inp) else \
            call(PrvKeyNode.master_key, bip39_seed=seed, testnet=inp["net"] == "test")
    ev["q"] = queries_json(tap)
    ev["res"] = res_of(ok, v, node_view)


def _ckd_event(inp, tab, ev):
    from . import refwallet as W
    from .recorders import PrfTap
    prf = make_prf(inp.get("prf"))
    i = int.from_bytes(bytes(inp["i"]), "big")
    rpar = ref_node(tab, inp["par"])
    rn = W.ckd(tab, rpar, i, prf)
    ref_strings(tab, rn)
    par = py_node(inp["par"])
    ev["par_before"] = {"node": node_json(par), "nch": len(getattr(par, "children", ()))}
    with PrfTap(prf) as tap:
        ok, v = call(par.ckd, i) if argform(inp) else call(par.ckd, index=i)
    ev["q"] = queries_json(tap)
    ev["par_after"] = {"node": node_json(par), "nch": len(getattr(par, "children", ())) - (1 if ok else 0)}
    if inp.get("drop"):
        # the caller keeps ONLY the child (e.g. PrvKeyNode.parse(xprv).ckd(i)): the parent object is gone
        # before anything is printed for the child
        import gc
        del par
        gc.collect()
    ev["res"] = res_of(ok, v, node_view)


@act
def CkdPriv(inp, tab, ev):
    _ckd_event(inp, tab, ev)


@act
def CkdPub(inp, tab, ev):
    _ckd_event(inp, tab, ev)


@act
def DerivePath(inp, tab, ev):
    from . import refwallet as W
    from .recorders import PrfTap
    prf = make_prf(inp.get("prf"))
    path = [int.from_bytes(bytes(i), "big") for i in inp["path"]]
    rroot = ref_node(tab, inp["root"])
    rn = W.derive(tab, rroot, path, prf)
    ref_strings(tab, rn)
    root = py_node(inp["root"])
    with PrfTap(prf) as tap:
        if inp.get("form") == "iterator":
            ok, v = call(root.derive_path, iter(path))         # a one-shot iterable: refuse it or honour it, never half-use it
        else:
            ok, v = call(root.derive_path, path) if argform(inp) else call(root.derive_path, index_list=path)
    ev["q"] = []
    if inp.get("drop"):
        import gc
        del root                      # only the node that was asked for is kept by the caller
        gc.collect()
    ev["res"] = res_of(ok, v, node_view)


@act
def MisloadedPub(inp, tab, ev):
    """an extended PUBLIC key loaded through the private node class (PrvKeyNode.parse of an xpub string - the library
    does this itself while importing): still public-only data; hardened derivation from it is refused"""
    from btc_hd_wallet.bip32 import PrvKeyNode
    from . import refwallet as W
    rn = ref_node(tab, inp["par"])
    xpub = W.ser(tab, rn, W.VERSIONS[("pub", rn.net, "bip44")], False)
    i = int.from_bytes(bytes(inp["i"]), "big")
    probes = []
    if inp.get("via") == "subclass":
        from btc_hd_wallet.bip32 import PubKeyNode

        class AppNode(PubKeyNode):           # an application's own node class
            pass
        ok0, n = call(AppNode.parse, xpub, rn.net == "test")
    else:
        ok0, n = call(PrvKeyNode.parse, xpub, rn.net == "test")
    if ok0:
        for what, f in (("ckd", lambda: n.ckd(i)), ("derive_path", lambda: n.derive_path([i])),
                        ("generate_children", lambda: list(n.generate_children((i, i + 1))))):
            okp, v = call(f)
            probes.append({"what": what, "ok": bool(okp and v is not None and v != [])})
    ev["res"] = {"ok": True, "v": {"loaded": ok0, "probes": probes}}


@act
def GenChildren(inp, tab, ev):
    """bulk child generation: node.generate_children((start, end)) -> the children start..end-1, in order.
    inp.step: a third interval element (the API hands the interval to range()): the indexes asked for are then listed in
    inp.idxs; inp.prf: chosen PRF"""
    from . import refwallet as W
    from .recorders import PrfTap
    st, en = int.from_bytes(bytes(inp["start"]), "big"), int.from_bytes(bytes(inp["end"]), "big")
    prf = make_prf(inp.get("prf"))
    rpar = ref_node(tab, inp["par"])
    interval = (st, en)
    if inp.get("step") is not None:
        step = -inp["step"]["mag"] if inp["step"]["neg"] else inp["step"]["mag"]
        interval = (st, en, step)
        assert [list(x) for x in inp["idxs"]] == [list(i.to_bytes(4, "big")) for i in range(*interval)], "idxs must list range(*interval)"
    for i in range(*interval):
        if 0 <= i < 2 ** 32:
            W.ckd(tab, rpar, i, prf)
    par = py_node(inp["par"])
    with PrfTap(prf):
        ok, v = call(lambda: list(par.generate_children(interval) if argform(inp) else par.generate_children(interval=interval)))
    ev["res"] = res_of(ok, v, lambda l: [node_json(c) for c in l])


@act
def Agree(inp, tab, ev):
    """derive privately and publicly along the same path from one root"""
    from btc_hd_wallet.bip32 import PubKeyNode
    from . import refwallet as W
    path = [int.from_bytes(bytes(i), "big") for i in inp["path"]]
    rroot = ref_node(tab, inp["root"])
    rn = W.derive(tab, rroot, path)
    ref_strings(tab, rn)
    ru = W.derive(tab, W.neuter(rroot), path)
    ref_strings(tab, ru)
    root = py_node(inp["root"])
    ok1, v1 = call(root.derive_path, path)
    # the public twin is obtained the way a watch-only user gets it: from the xpub string
    ok0, pub_root = call(lambda: PubKeyNode.parse(root.extended_public_key(), testnet=root.testnet))
    if not ok0:
        ev["res"] = res_of(False, pub_root)
        return
    ok2, v2 = call(pub_root.derive_path, path)
    ev["res"] = {"ok": True, "v": {"prv": dict(ok=ok1, **(node_view(v1) if ok1 else {})),
                                   "pub": dict(ok=ok2, **(node_view(v2) if ok2 else {}))}}


@act
def CkdSeq(inp, tab, ev):
    """several derivations on SHARED node objects, some of them driven into the invalid classes"""
    from . import refwallet as W
    from .recorders import PrfTap
    prf = make_prf(inp.get("prf"))
    rroot = ref_node(tab, inp["root"])
    rres = []
    for st in inp["steps"]:
        src = rroot if st["from"] == 0 else rres[st["from"] - 1]
        rres.append(W.ckd(tab, src, int.from_bytes(bytes(st["i"]), "big"), prf) if src is not None else None)
    root = py_node(inp["root"])
    res, objs = [], []
    with PrfTap(prf):
        for st in inp["steps"]:
            src = root if st["from"] == 0 else objs[st["from"] - 1]
            if src is None:
                objs.append(None)
                res.append({"ok": False, "exc": "source-missing"})
                continue
            ok, v = call(src.ckd, int.from_bytes(bytes(st["i"]), "big"))
            objs.append(v if ok else None)
            res.append({"ok": True, "node": node_json(v)} if ok else {"ok": False, "exc": type(v).__name__})
    ev["res"] = {"ok": True, "v": res}


# ------------------------------------------------------- C07 extended keys
def _hash_of_emitted(tab, s):
    """Hash256 of the body of a string the code emitted (for the spec's decode direction)"""
    body = R.b58check_body(s) if isinstance(s, str) else None
    if body is not None:
        tab.hash256(body)


@act
def ExtSer(inp, tab, ev):
    from . import refwallet as W
    rn = ref_node(tab, inp["node"])
    ver = int.from_bytes(bytes(inp["version"]), "big")
    tab.hash256(W.payload(rn, ver, inp["kind"] == "prv"))
    n = py_node(inp["node"])
    if inp.get("other_kind_first"):
        # the SAME node object was asked for the other kind of key with the same explicit version number first
        call(n.extended_public_key, ver) if inp["kind"] == "prv" else call(n.extended_private_key, ver)
    if inp["kind"] == "prv":
        ok, v = call(n.extended_private_key, ver)
    else:
        ok, v = call(n.extended_public_key, ver)
    if ok:
        _hash_of_emitted(tab, v)
    ev["res"] = res_of(ok, v, T)


def _key_oracles(tab, body, as_prv):
    if len(body) == 78:
        kd = body[45:]
        if as_prv:
            if kd[0] == 0 and 0 < int.from_bytes(kd[1:], "big") < R.N:
                tab.ptc(kd[1:])
        else:
            tab.secnorm(kd)


@act
def ExtParse(inp, tab, ev):
    from io import BytesIO
    from btc_hd_wallet.bip32 import PrvKeyNode, PubKeyNode
    cls = PrvKeyNode if inp["asPrv"] else PubKeyNode
    if inp["form"] == "str":
        s = untext(inp["s"])
        arg = s
        body = R.b58check_body(s)
    elif inp["form"] == "stream-offset":
        buf = bytes(inp["s"])
        body = buf[inp["offset"]:inp["offset"] + 78]
        arg = BytesIO(buf)
        arg.seek(inp["offset"])
    elif inp["form"] == "rawstream":
        # an unbuffered binary stream that delivers the record in pieces (socket, pipe): refuse it or read it right
        import io

        class Pieces(io.RawIOBase):
            def __init__(self, data, chunk):
                self._d, self._p, self._c = bytes(data), 0, chunk

            def readable(self):
                return True

            def readinto(self, b):
                n = min(len(b), self._c, len(self._d) - self._p)
                b[:n] = self._d[self._p:self._p + n]
                self._p += n
                return n
        body = bytes(inp["s"])
        arg = Pieces(body, inp.get("chunk", 3))
    else:
        body = bytes(inp["s"])
        arg = body if inp["form"] == "bytes" else BytesIO(body)
    if body is not None:
        tab.hash256(body)
        _key_oracles(tab, body, inp["asPrv"])
    ok, n = call(cls.parse, arg, inp["net"] == "test")

    def view(n):
        d = {"node": node_json(n), "version": B((n.parsed_version or 0).to_bytes(4, "big"))}
        try:
            again = n.extended_private_key(version=n.parsed_version) if inp["asPrv"] else \
                n.extended_public_key(version=n.parsed_version)
        except Exception:
            again = "ERR"
        d["again"] = T(again)
        if inp["form"] == "stream-offset":
            d["pos"] = arg.tell()
        # the parsed node handed around as Python objects are: copied, deep-copied, pickled - an equal node that
        # serialises identically (a treatment the node does not support is skipped)
        import copy
        import pickle
        d["copies"] = []
        for how, f in (("copy", copy.copy), ("deepcopy", copy.deepcopy), ("pickle", lambda x: pickle.loads(pickle.dumps(x)))):
            try:
                c = f(n)
                s2 = c.extended_private_key(version=n.parsed_version) if inp["asPrv"] else c.extended_public_key(version=n.parsed_version)
            except Exception:
                continue
            d["copies"].append({"how": how, "s": T(s2), "equal": bool(c == n)})
        return d
    if ok:
        ok, n = call(view, n)       # a node whose key cannot be used counts as a failed parse
    ev["res"] = res_of(ok, n)


@act
def Import(inp, tab, ev):
    from btc_hd_wallet import BaseWallet
    s = untext(inp["s"])
    body = R.b58check_body(s)
    if body is not None:
        tab.hash256(body)
        _key_oracles(tab, body, True)
        _key_oracles(tab, body, False)
    ok, w = call(BaseWallet.from_extended_key, s)
    if ok:
        ok, w = call(lambda: {"net": "test" if w.testnet else "main", "watch_only": bool(w.watch_only),
                              "has_bip85": w.bip85 is not None, "node": node_json(w.master),
                              "master_net": "test" if w.master.testnet else "main"})
    ev["res"] = res_of(ok, w)


# --------------------------------------------------------- C09 key encodings
@act
def PubOf(inp, tab, ev):
    from btc_hd_wallet.keys import PrivateKey, PublicKey
    k = bytes(inp)
    tab.ptc(k)
    tab.ptu(k)

    def go():
        pk = PrivateKey(k)
        c, u = pk.K.sec(True), pk.K.sec(False)
        return {"k": B(bytes(pk)), "secc": B(c), "secu": B(u),
                "parsec": B(PublicKey.parse(c).sec()), "parseu": B(PublicKey.parse(u).sec())}
    ok, v = call(go)
    ev["res"] = res_of(ok, v)


@act
def PrivCtor(inp, tab, ev):
    from btc_hd_wallet.keys import PrivateKey
    v = bytes(inp["v"])
    form = inp["form"]
    if inp.get("warm"):
        # the valid 32-byte key with the same NUMERIC value (and its int form) were used earlier in this process
        n_ = int.from_bytes(v, "big")
        if 0 < n_ < 2 ** 256:
            call(lambda: PrivateKey(n_.to_bytes(32, "big")).K.sec())
            call(lambda: PrivateKey(n_).K.sec())
    if form == "bytes":
        f = lambda: PrivateKey(v)
    elif form == "parse":
        f = lambda: PrivateKey.parse(v)
    elif form == "int":
        f = lambda: PrivateKey(int.from_bytes(v, "big"))
    else:
        f = lambda: PrivateKey.from_int(int.from_bytes(v, "big"))
    ok, pk = call(f)
    if ok:
        ok, pk = call(lambda: {"k": B(bytes(pk)), "secc": B(pk.K.sec())})
    ev["res"] = res_of(ok, pk)


@act
def Wif(inp, tab, ev):
    from btc_hd_wallet.keys import PrivateKey
    k = bytes(inp["k"])
    payload = bytes([0xef if inp["net"] == "test" else 0x80]) + k + (b"\x01" if inp["compressed"] else b"")
    tab.hash256(payload)

    def go():
        w = PrivateKey(k).wif(compressed=inp["compressed"], testnet=inp["net"] == "test")
        ok2, back = call(PrivateKey.from_wif, w)
        return {"wif": T(w), "back": {"ok": True, "k": B(bytes(back))} if ok2 else {"ok": False}}
    ok, v = call(go)
    ev["res"] = res_of(ok, v)


@act
def FromWif(inp, tab, ev):
    from btc_hd_wallet.keys import PrivateKey
    s = untext(inp)
    body = R.b58check_body(s)
    if body is not None:
        tab.hash256(body)
    ok, pk = call(PrivateKey.from_wif, s)
    if ok:
        ok, pk = call(lambda: {"k": B(bytes(pk))})
    ev["res"] = res_of(ok, pk)


@act
def SecParse(inp, tab, ev):
    from btc_hd_wallet.keys import PublicKey
    s = bytes(inp)
    tab.secnorm(s)
    ok, pk = call(PublicKey.parse, s)
    if ok:
        ok, pk = call(lambda: {"secc": B(pk.sec(True))})
    ev["res"] = res_of(ok, pk)


@act
def FromPoint(inp, tab, ev):
    """PublicKey.from_point given point OBJECTS that are not points of secp256k1 (generators and multiples of other
    curves of the same size): every one refused"""
    from btc_hd_wallet.keys import PublicKey
    probes = []
    try:
        import ecdsa
        pts = [("NIST256p.G", ecdsa.NIST256p.generator), ("NIST256p.5G", ecdsa.NIST256p.generator * 5),
               ("BRAINPOOLP256r1.G", ecdsa.BRAINPOOLP256r1.generator)]
    except Exception:
        pts = []
    for what, pt in pts:
        try:
            pk = PublicKey.from_point(pt)
            pk.sec()
            probes.append({"what": what, "ok": True})
        except Exception:
            probes.append({"what": what, "ok": False})
    ev["res"] = {"ok": True, "v": {"probes": probes}}


@act
def BadPointNode(inp, tab, ev):
    """a PUBLIC node whose 33-byte key is not a curve point, obtained by each route; nothing may be emitted for it"""
    from btc_hd_wallet import BaseWallet
    from btc_hd_wallet.bip32 import PubKeyNode
    K = bytes(inp["K"])
    tab.secnorm(K)
    payload = bytes.fromhex("0488b21e") + bytes([2]) + b"\x11\x22\x33\x44" + (5).to_bytes(4, "big") + bytes(range(32)) + K
    xpub = R.b58check_enc(payload)
    probes = []

    def probe(what, f):
        try:
            v = f()
            probes.append({"what": what, "ok": v is not None})
        except Exception:
            probes.append({"what": what, "ok": False})

    def node():
        r = inp["route"]
        if r == "ctor":
            return PubKeyNode(key=K, chain_code=bytes(range(32)), index=5, depth=2, parent_fingerprint=b"\x11\x22\x33\x44")
        if r == "bytes":
            return PubKeyNode.parse(payload)
        if r == "str":
            return PubKeyNode.parse(xpub)
        return BaseWallet.from_extended_key(xpub).master
    try:
        n = node()
    except Exception:
        n = None
    if n is not None:
        w = BaseWallet(master=n)
        probe("extended_public_key", n.extended_public_key)
        probe("serialize_public", n.serialize_public)
        probe("fingerprint", n.fingerprint)
        probe("ckd", lambda: n.ckd(0))
        probe("public_key-sec", lambda: n.public_key.sec())
        for k in KIND_SEQ:
            probe(k + "_address", lambda k=k: getattr(w, k + "_address")(n))
        probe("node_extended_keys", lambda: w.node_extended_keys(n)["pub"])
    ev["res"] = {"ok": True, "v": {"built": n is not None, "probes": probes}}


# ----------------------------------------------------------- C05 addresses
def emitted_address_oracle(tab, s):
    """Hash256 of the body of an emitted Base58Check string (for Classify), and of every maximal
    Base58 run of WIF / extended-key length inside it (for HidesPrivateKey)"""
    if isinstance(s, str):
        body = R.b58check_body(s)
        if body is not None:
            tab.hash256(body)
        run = ""
        for ch in s + "\0":
            if ch in R.B58:
                run += ch
            else:
                if len(run) in (51, 52, 111) and run != s:
                    b = R.b58check_body(run)
                    if b is not None:
                        tab.hash256(b)
                run = ""


@act
def Addr(inp, tab, ev):
    from btc_hd_wallet import BaseWallet
    from btc_hd_wallet.bip32 import PubKeyNode
    from btc_hd_wallet.keys import PublicKey
    from . import refwallet as W
    K = bytes(inp["K"])
    sec = K if inp["compressed"] else tab.uncompress(K)
    W.ref_addr(tab, inp["kind"], sec, inp["net"])
    test = inp["net"] == "test"
    if inp["via"] == "imported-root":
        # the ROOT node of a wallet imported from an extended PRIVATE key (its raw key field is 00 || k, 33 bytes)
        w_ = {}
        ok, v = call(lambda: w_.setdefault("w", BaseWallet.from_extended_key(untext(inp["xprv"]))))
        if ok:
            ok, v = call(getattr(w_["w"], inp["kind"] + "_address"), w_["w"].master)
    elif inp["via"] == "wallet":
        # (node_net: the node object may have been made by a wallet of the other network - the WALLET's network decides)
        node = PubKeyNode(key=K, chain_code=bytes(32), testnet=(inp.get("node_net", inp["net"]) == "test"))
        w = BaseWallet(master=node, testnet=test)
        ok, v = call(getattr(w, inp["kind"] + "_address"), node)
    else:
        ok, v = call(lambda: PublicKey.parse(K).address(compressed=inp["compressed"], testnet=test, addr_type=inp["kind"]))
    if ok:
        emitted_address_oracle(tab, v)
    ev["res"] = res_of(ok, v, T)


@act
def AddrSeq(inp, tab, ev):
    from btc_hd_wallet.keys import PublicKey
    from . import refwallet as W
    K = bytes(inp["K"])
    for st in inp["steps"]:
        W.ref_addr(tab, st["kind"], K if st["compressed"] else tab.uncompress(K), inp["net"])

    def go():
        pk = PublicKey.parse(K)                      # ONE object for the whole sequence
        return [pk.address(compressed=st["compressed"], testnet=inp["net"] == "test", addr_type=st["kind"]) for st in inp["steps"]]
    ok, v = call(go)
    if ok:
        for a in v:
            emitted_address_oracle(tab, a)
    ev["res"] = res_of(ok, v, lambda l: [T(a) for a in l])


@act
def ScriptTpl(inp, tab, ev):
    from btc_hd_wallet import script
    fn = getattr(script, inp["tpl"] + "_script")
    if inp.get("then") is not None:
        # the script is built, then ANOTHER script of the same kind is built for another hash, then the first is serialised
        def both():
            first = fn(bytes(inp["h"]))
            fn(bytes(inp["then"])).raw_serialize()
            return first.raw_serialize()
        ok, v = call(both)
    else:
        ok, v = call(lambda: fn(bytes(inp["h"])).raw_serialize())
    ev["res"] = res_of(ok, v, B)


@act
def Hash(inp, tab, ev):
    from btc_hd_wallet import helper, ripemd
    msg = bytes(inp)
    tab.ripemd160(msg)
    tab.hash160(msg)
    calls = []
    real = getattr(ripemd, "compress", None)

    def le(x):
        return B(x.to_bytes(max(1, (x.bit_length() + 7) // 8), "little")) if x >= 0 else [-1]

    observable = [True]

    def tapped(*a, **kw):
        out = real(*a, **kw)
        # recorded only when the call has the shape the shell specification describes (five state words and a
        # 64-byte block in, five words out); any other internal layout is simply not observed
        try:
            if kw or len(a) != 6 or not all(isinstance(x, int) for x in a[:5]) or len(bytes(a[5])) != 64 or len(out) != 5:
                raise ValueError
            calls.append({"sin": [le(x) for x in a[:5]], "block": B(bytes(a[5])), "sout": [le(x) for x in out]})
        except Exception:
            observable[0] = False
        return out
    if callable(real):
        ripemd.compress = tapped
    else:
        real = None
    try:
        ok, v = call(lambda: {"rip": B(ripemd.ripemd160(msg))})
        ncalls = len(calls)
        if ok:
            ok2, v2 = call(helper.hash160, msg)
            if ok2:
                v["h160"] = B(v2)
            else:
                ok, v = ok2, v2
    finally:
        if real is not None:
            ripemd.compress = real
    # (the block-by-block shell check is for inputs of up to a few KiB; longer ones are compared by digest only)
    ev["calls"] = calls[:ncalls] if (ok and observable[0] and len(msg) <= 4096) else []
    ev["res"] = res_of(ok, v)


# ---------------------------------------------------- C04 / C03 mnemonic, seed
def _hexbytes(s):
    """bytes of a hex text if it is clean pairs, or clean after dropping ASCII blanks; else None"""
    t = "".join(c for c in s if c not in " \t\n\r\x0b\x0c")
    if len(t) % 2 == 0 and all(c in "0123456789abcdefABCDEF" for c in t):
        return bytes(int(t[i:i + 2], 16) for i in range(0, len(t), 2))
    return None


def _indices(sentence):
    from btc_hd_wallet.bip39_wordlist import word_list
    pos = {w: i for i, w in enumerate(word_list)}
    return [pos.get(w, -1) for w in sentence.split(" ")] if sentence != "" else []


@act
def Mnemonic(inp, tab, ev):
    from btc_hd_wallet import bip39, BaseWallet
    s = untext(inp["hex"])
    b = _hexbytes(s)
    if b is not None:
        tab.sha256(b)
    if inp.get("via") == "wallet":
        ok, v = call(lambda: BaseWallet.from_entropy_hex(s).mnemonic)
    else:
        ok, v = call(bip39.mnemonic_from_entropy, s)
    ev["res"] = res_of(ok, v, lambda m: {"idx": _indices(m)})


@act
def WordList(inp, tab, ev):
    from btc_hd_wallet.bip39_wordlist import word_list
    words = [str(w) for w in word_list]
    tab.sha256("".join(w + "\n" for w in words).encode("utf-8"))
    ev["words"] = [T(w) for w in words]
    ev["res"] = {"ok": True, "v": len(words)}


def _seed_oracles(tab, m, p):
    nm, npw = tab.nfkd(m), tab.nfkd(p)
    return tab.pbkdf2(R.utf8(nm), b"mnemonic" + R.utf8(npw), 2048, 64, fast=False)


@act
def Seed(inp, tab, ev):
    from btc_hd_wallet import bip39
    m, p = untext(inp["m"]), untext(inp["p"])
    _seed_oracles(tab, m, p)
    # other (mnemonic, passphrase) pairs were turned into seeds earlier in this process (their answers are not judged)
    for w_ in inp.get("warm", []):
        call(bip39.bip39_seed_from_mnemonic, untext(w_["m"]), untext(w_["p"]))
    ok, v = call(bip39.bip39_seed_from_mnemonic, m, p) if argform(inp) else call(bip39.bip39_seed_from_mnemonic, mnemonic=m, password=p)
    ev["res"] = res_of(ok, v, B)


@act
def Construct(inp, tab, ev):
    from btc_hd_wallet import BaseWallet
    from btc_hd_wallet.bip39_wordlist import word_list
    from . import refwallet as W
    net = inp["net"]
    test = net == "test"
    r = inp["route"]
    seed = None
    if r == "mnemonic":
        seed = _seed_oracles(tab, untext(inp["m"]), untext(inp["p"]))
        f = lambda: BaseWallet.from_mnemonic(untext(inp["m"]), untext(inp["p"]), test)
    elif r == "entropy":
        hx = untext(inp["hex"])
        b = _hexbytes(hx)
        if b is not None:
            h = tab.sha256(b)
            if len(b) in (16, 20, 24, 28, 32) and hx.strip() == hx and " " not in hx:
                bits = bin(int.from_bytes(b, "big"))[2:].zfill(len(b) * 8) + bin(int.from_bytes(h, "big"))[2:].zfill(256)[:len(b) // 4]
                idx = [int(bits[i:i + 11], 2) for i in range(0, len(bits), 11)]
                ev["wordtab"] = [{"i": i, "w": T(str(word_list[i]))} for i in sorted(set(idx))]
                seed = _seed_oracles(tab, " ".join(str(word_list[i]) for i in idx), untext(inp["p"]))
        f = lambda: BaseWallet.from_entropy_hex(hx, untext(inp["p"]), test)
    elif r == "seed_hex":
        seed = bytes(inp["seed"])
        f = lambda: BaseWallet.from_bip39_seed_hex(seed.hex(), test)
    else:
        seed = bytes(inp["seed"])
        f = lambda: BaseWallet.from_bip39_seed_bytes(seed, test)
    ev.setdefault("wordtab", [])
    if seed is not None:
        rn = W.master(tab, seed, net)
        ref_strings(tab, rn)
    ok, w = call(f)
    if ok:
        ok, w = call(lambda: {"node": node_json(w.master), "xprv": T(w.master.extended_private_key()),
                              "wallet_net": "test" if w.testnet else "main",
                              "mnemonic": T(w.mnemonic or ""), "password": T(w.password or "")})
    ev["res"] = res_of(ok, w)


# ------------------------------------------------------------------ C12 BIP85
@act
def Bip85(inp, tab, ev):
    from btc_hd_wallet.bip85 import BIP85DeterministicEntropy
    from btc_hd_wallet.bip39_wordlist import word_list
    from . import refwallet as W
    from .recorders import PrfTap
    prf = make_prf(inp.get("prf"))
    i = int.from_bytes(bytes(inp["ix"]["mag"]), "big") * (-1 if inp["ix"]["neg"] else 1)
    i_ref = i
    if inp["ix"].get("frac"):
        # a non-integral number (the result of a '/' division, a Decimal): i + 1/2 in the given numeric type
        import decimal
        import fractions
        i = {"float": float(i) + 0.5, "decimal": decimal.Decimal(i) + decimal.Decimal("0.5"),
             "fraction": fractions.Fraction(2 * i + 1, 2)}[inp["ix"].get("type", "float")]
    p = inp["p"]
    app = inp["app"]
    rmaster = ref_node(tab, inp["master"])
    wt = W.ref_bip85(tab, rmaster, app, p, i_ref, prf, word_list)        # tables for the neighbouring integer index
    ev["wordtab"] = wt or []
    NAMES = {"mnemonic": ("bip39_mnemonic", "word_count", 24), "hex": ("hex", "num_bytes", 32), "pwd": ("pwd", "pwd_len", 21),
             "wif": ("wif", None, 0), "xprv": ("xprv", None, 0)}

    def request(be, app=app, p=p, i=i, spell="kw-all"):
        """one request in one of Python's equivalent spellings (a spelling that omits a parameter is only used when
        that parameter has its default value)"""
        meth, pname, pdefault = NAMES[app]
        m = getattr(be, meth)
        if pname is None:
            return (lambda: m(i)) if spell == "pos" else (lambda: m(index=i))
        if spell == "pos":
            return lambda: m(p, i)
        if spell == "kw-reversed":
            return lambda: m(index=i, **{pname: p})
        if spell == "index-only" and p == pdefault:
            return lambda: m(index=i)
        if spell == "param-only" and i == 0:
            return lambda: m(**{pname: p})
        return lambda: m(**{pname: p, "index": i})
    # other wallets of the same process asked the same question first (their answers are not judged here)
    for other in inp.get("warm", []):
        call(request(BIP85DeterministicEntropy(master_node=py_node(other))))
    if inp.get("churn"):
        # many OTHER masters lived and died in this process before (each answered the same question, was dropped and
        # collected): whatever the library remembers must not outlive - or be confused with - the object it was about
        import gc
        m0 = inp["master"]
        k0 = int.from_bytes(bytes(m0["k"]), "big")
        for j in range(inp["churn"]):
            o = dict(m0, k=B(((k0 + 7919 * (j + 1)) % (R.N - 1) + 1).to_bytes(32, "big")))
            be_ = BIP85DeterministicEntropy(master_node=py_node(o))
            call(request(be_))
            del be_
            gc.collect()
    if inp.get("derived_from") is not None:
        # the BIP85 master is a node DERIVED in this process (it has a parent object): BIP85 starts at the node it is given
        root_ = py_node(inp["derived_from"]["root"])
        be = BIP85DeterministicEntropy(master_node=root_.ckd(int.from_bytes(bytes(inp["derived_from"]["i"]), "big")))
    else:
        be = BIP85DeterministicEntropy(master_node=py_node(inp["master"]))
    # earlier requests on the SAME object, in various spellings (their answers are not judged here either)
    for h in inp.get("history", []):
        hi = int.from_bytes(bytes(h["ix"]["mag"]), "big")
        call(request(be, h["app"], h["p"], hi, h.get("spell", "kw-all")))
    # ... and a long run of DISTINCT other requests on the same object (more than any small cache holds)
    for j in range(inp.get("bulk", 0)):
        a_, p_, i_ = [("hex", 16 + j % 49, j), ("wif", 0, j + 3), ("pwd", 20 + j % 67, j + 2)][j % 3]
        call(request(be, a_, p_, i_))
    f = request(be, spell=inp.get("spell", "kw-all"))
    with PrfTap(prf):
        ok, v = call(f)
    ev["res"] = res_of(ok, v, T)


# ------------------------------------------------ C14 watch-only, C16 network
KIND_SEQ = ["p2pkh", "p2wpkh", "p2sh_p2wpkh", "p2wsh", "p2sh_p2wsh"]


@act
def Watch(inp, tab, ev):
    from btc_hd_wallet import PaperWallet
    from . import refwallet as W
    export = [int.from_bytes(bytes(i), "big") for i in inp["export"]]
    sub = [int.from_bytes(bytes(i), "big") for i in inp["sub"]]
    ver = int.from_bytes(bytes(inp["version"]), "big")
    vnet = {v: k[1] for k, v in W.VERSIONS.items()}.get(ver)
    if inp.get("route") == "wallet":
        vnet = inp["root"]["net"]
    rroot = ref_node(tab, inp["root"])
    rx = W.derive(tab, rroot, export)
    if rx is not None and vnet is not None:
        W.derive(tab, rx, sub)                               # the full wallet's side
        rw = W.neuter(rx)
        rw.net = vnet
        rn = W.derive(tab, rw, sub)                          # the watch-only side
        if rn is not None:
            for k in KIND_SEQ:
                W.ref_addr(tab, k, rn.K, vnet)

    def go():
        root = py_node(inp["root"])
        x = root.derive_path(export)
        if inp.get("route") == "wallet":
            s = PaperWallet(master=root, testnet=root.testnet).node_extended_keys(x)["pub"]
        else:
            s = x.extended_public_key(version=ver)
        wl = PaperWallet.from_extended_key(s)
        n = wl.master.derive_path(sub)
        out = {"net": "test" if wl.testnet else "main", "watch_only": bool(wl.watch_only), "has_bip85": wl.bip85 is not None,
               "node": node_json(n), "addrs": [T(getattr(wl, k + "_address")(n)) for k in KIND_SEQ]}
        priv = []

        def probe(what, f, leak_if=lambda v: v is not None):
            try:
                v = f()
                priv.append({"what": what, "leak": bool(leak_if(v))})
            except Exception:
                priv.append({"what": what, "leak": False})
        probe("node_extended_private_key", lambda: wl.node_extended_private_key(n))
        probe("node_extended_keys-prv", lambda: wl.node_extended_keys(n)["prv"])
        probe("group-wif", lambda: wl.group([n], wl.p2wpkh_address)[0][3])
        probe("private_key", lambda: n.private_key)
        probe("extended_private_key", lambda: n.extended_private_key())
        probe("hardened-ckd", lambda: n.ckd(2 ** 31))
        probe("hardened-ckd-max", lambda: n.ckd(2 ** 32 - 1))
        probe("bip85_data", lambda: wl.bip85_data())
        probe("generate", lambda: wl.generate(0, (0, 1)))
        probe("master-private_key", lambda: wl.master.private_key)

        def gen_skip(skip):
            g = wl.address_generator(n)
            next(g)
            return g.send(skip)
        probe("address_generator-send-2^31", lambda: gen_skip(2 ** 31))        # lands on a hardened index
        # path STRINGS with a hardened level, asked of the watch-only wallet: the absolute path the full wallet prints
        # for this node (and relatives with another purpose / coin / account), short ones, both root marks - every
        # one of them needs a hardened derivation from public data, so none may be answered with a node
        def fmt(lst, root):
            return "/".join([root] + [(str(i - 2 ** 31) + "'") if i >= 2 ** 31 else str(i) for i in lst])
        absolute = (export + sub)[:5]
        cands = []
        if any(i >= 2 ** 31 for i in absolute):
            cands.append(absolute)
            for j, i in enumerate(absolute):
                if i >= 2 ** 31:
                    cands.append(absolute[:j] + [i ^ 1] + absolute[j + 1:])
        cands += [[2 ** 31], [0, 2 ** 31 + 1], [44 + 2 ** 31, 2 ** 31, 2 ** 31, 0, 5], [84 + 2 ** 31, 2 ** 31 + 1, 2 ** 31, 0, 0]]
        for j, c in enumerate(cands[:8]):
            for root_mark in ("m", "M"):
                probe("by_path-with-hardened-level-%d%s" % (j, root_mark), lambda c=c, r=root_mark: wl.by_path(fmt(c, r)))
        # nothing reachable from the watch-only wallet (attributes, nodes, their children, what pickling would
        # write out) holds the private scalar of the exported node or of a node below it
        import pickle
        secrets_ = [bytes(x.private_key)]
        try:
            secrets_.append(bytes(x.derive_path(sub).private_key))
        except Exception:
            pass

        def reachable(o, depth=0, seen=None):
            seen = set() if seen is None else seen
            if id(o) in seen or depth > 6:
                return []
            seen.add(id(o))
            out_ = []
            if isinstance(o, (bytes, bytearray)):
                return [bytes(o)]
            if isinstance(o, str):
                return [o.encode("utf-8", "replace")]
            if isinstance(o, int) and not isinstance(o, bool) and o > 2 ** 200:
                return [o.to_bytes(40, "big")]
            if isinstance(o, dict):
                items = list(o.keys()) + list(o.values())
            elif isinstance(o, (list, tuple, set, frozenset)):
                items = list(o)
            else:
                items = []
                for name in list(getattr(o, "__dict__", {}) or {}) + [n_ for c_ in type(o).__mro__ for n_ in getattr(c_, "__slots__", ())]:
                    try:
                        items.append(getattr(o, name))
                    except Exception:
                        pass
            for it in items:
                out_ += reachable(it, depth + 1, seen)
            return out_
        blobs = reachable(wl) + reachable(n)
        try:
            blobs.append(pickle.dumps(wl))
        except Exception:
            pass
        probe("object-graph-holds-private-scalar", lambda: any(sk in b or sk.hex().encode() in b for b in blobs for sk in secrets_), leak_if=bool)
        out["priv"] = priv
        return out
    ok, v = call(go)
    if ok:
        for a in v["addrs"]:
            emitted_address_oracle(tab, untext(a))
    ev["res"] = res_of(ok, v)


def wallet_leaves(data):
    """(role, string) leaves of a PaperWallet.generate() dict; the BIP85 block is exempt"""
    out, exempt = [], 0
    for k, v in data.items():
        if k == "MASTER":
            for x in v.values():
                if isinstance(x, str):
                    out.append(("other", x))
        elif k == "BIP85":
            exempt += len(v)
        else:
            aek = v["account_extended_keys"]
            out.append(("path", aek["path"]))
            out.append(("pub", aek["pub"]))
            if aek.get("prv") is not None:
                out.append(("prv", aek["prv"]))
            for row in v["groups"]:
                out.append(("path", row[0]))
                out.append(("addr", row[1]))
                out.append(("other", row[2]))
                if len(row) > 3 and row[3] is not None:
                    out.append(("wif", row[3]))
    return out, exempt


@act
def Emit(inp, tab, ev):
    """every network-tagged string a wallet emits through one API family"""
    import json as _json
    from btc_hd_wallet import PaperWallet
    test = inp["net"] == "test"
    what = inp["what"]
    leaves = []

    def go():
        if inp.get("import"):
            w = PaperWallet.from_extended_key(untext(inp["import"]))
        else:
            w = PaperWallet.from_bip39_seed_hex(inp["seed"], testnet=test)
        if inp.get("companion"):
            # somebody else looks at the same master node through a wallet of the OTHER network: a second view does
            # not change what this wallet emits
            from btc_hd_wallet import BaseWallet
            try:
                other = BaseWallet(master=w.master, testnet=not w.testnet)
                other.p2wpkh_address(other.master)
            except Exception:
                pass
        if what == "generate":
            lv, ex = wallet_leaves(w.generate(account=inp["account"], interval=tuple(inp["interval"])))
            leaves.extend(lv)
            ev["exempt_leaves"] = ex
        elif what == "nodes":
            for p in inp["paths"]:
                path = [int.from_bytes(bytes(i), "big") for i in p]
                n = w.master.derive_path(path)
                d = w.node_extended_keys(n)
                leaves.append(("other", d["path"]))        # a path the caller asked for, not a generated one
                leaves.append(("pub", d["pub"]))
                if d["prv"] is not None:
                    leaves.append(("prv", d["prv"]))
                leaves.append(("pub", n.extended_public_key()))
                if not w.watch_only:
                    leaves.append(("prv", n.extended_private_key()))
                    leaves.append(("wif", n.private_key.wif(testnet=w.testnet)))
                    leaves.append(("wif", n.private_key.wif(compressed=False, testnet=w.testnet)))
                for k in KIND_SEQ:
                    leaves.append(("addr", getattr(w, k + "_address")(n)))
                for row in w.group([n], w.p2pkh_address):
                    leaves.append(("addr", row[1]))
                    if row[3] is not None:
                        leaves.append(("wif", row[3]))
        elif what == "foreign-node":
            # a node object made by a wallet of the OTHER network, handed to this wallet's address / key / row APIs:
            # what this wallet emits carries this wallet's network
            other = PaperWallet.from_bip39_seed_hex(inp["seed"], testnet=not w.testnet)
            for pth in ("m/0/1", "m/84'/0'/0'/0/3"):
                n = other.by_path(pth)
                for k in KIND_SEQ:
                    leaves.append(("addr", getattr(w, k + "_address")(n)))
                d = w.node_extended_keys(n)
                leaves.append(("pub", d["pub"]))
                leaves.append(("prv", d["prv"]))
                for row in w.group([n], w.p2wpkh_address):
                    leaves.append(("addr", row[1]))
                    if row[3] is not None:
                        leaves.append(("wif", row[3]))
        elif what == "wasabi":
            d = _json.loads(w.wasabi_json())
            leaves.append(("pub", d["ExtPubKey"]))
        elif what == "generator":
            n = w.master.derive_path([int.from_bytes(bytes(i), "big") for i in inp["paths"][0]])
            for k in KIND_SEQ:
                g = w.address_generator(n, getattr(w, k + "_address"))
                leaves.append(("addr", next(g)[1]))
                leaves.append(("addr", g.send(5)[1]))
        return {"net": "test" if w.testnet else "main", "n": len(leaves)}
    ok, v = call(go)
    for role, s in leaves:
        emitted_address_oracle(tab, s)
    ev["leaves"] = [{"role": r, "s": T(s)} for r, s in leaves]
    ev["res"] = res_of(ok, v)


# ----------------------------------------------- C06 paper wallet, C15 paranoia
SLIP = {"bip44": 44, "bip49": 49, "bip84": 84}
ADDRK = {"bip44": "p2pkh", "bip49": "p2sh_p2wpkh", "bip84": "p2wpkh"}


def _iv(inp):
    """interval bounds travel as 5-byte big-endian lists (2^31 does not fit a TLC integer)"""
    return int.from_bytes(bytes(inp["start"]), "big"), int.from_bytes(bytes(inp["end"]), "big")


def _paper_wallet(inp):
    from btc_hd_wallet import PaperWallet
    test = inp["net"] == "test"
    if inp.get("import") is not None:
        return PaperWallet.from_extended_key(untext(inp["import"]))
    if inp.get("seed") is not None:
        return PaperWallet.from_bip39_seed_bytes(bytes(inp["seed"]), testnet=test)
    return PaperWallet.from_mnemonic(untext(inp["mnemonic"]), untext(inp["password"]), testnet=test)


def _ref_master(tab, inp):
    from . import refwallet as W
    if inp.get("import") is not None:
        body = R.b58check_body(untext(inp["import"]))
        tab.hash256(body)
        k = body[46:78]
        return W.RNode(k, tab.ptc(k), body[13:45], body[4], int.from_bytes(body[9:13], "big"), body[5:9], inp["net"])
    if inp.get("seed") is not None:
        seed = bytes(inp["seed"])
    else:
        seed = _seed_oracles(tab, untext(inp["mnemonic"]), untext(inp["password"]))
    return W.master(tab, seed, inp["net"])


def _ref_generate(tab, rm, net, account, start, end):
    from . import refwallet as W
    H = W.HARD
    for b, p in SLIP.items():
        apath = [p + H, (1 if net == "test" else 0) + H, account + H]
        acct = W.derive(tab, rm, apath)
        W.ser(tab, acct, W.VERSIONS[("pub", net, b)], False)
        W.ser(tab, acct, W.VERSIONS[("prv", net, b)], True)
        chain = W.derive(tab, rm, apath + [0])
        for i in range(start, max(start, end)):
            c = W.ckd(tab, chain, i)
            W.ref_addr(tab, ADDRK[b], c.K, net)
            tab.hash256(bytes([0xef if net == "test" else 0x80]) + c.k + b"\x01")


def _new_paper_wallet(inp):
    """a wallet the library makes up itself (fresh entropy) or builds from entropy: inp["new"] = {via, n}"""
    from btc_hd_wallet import PaperWallet
    nw, pw, test = inp["new"], untext(inp["password"]), inp["net"] == "test"
    f = argform({k_: v_ for k_, v_ in inp.items() if k_ != "mnemonic"}, 2)
    if nw["via"] == "new_wallet":
        return PaperWallet.new_wallet(nw["n"], pw, test) if f else PaperWallet.new_wallet(mnemonic_length=nw["n"], password=pw, testnet=test)
    if nw["via"] == "entropy_bits":
        return PaperWallet.from_entropy_bits(nw["n"], pw, test) if f else PaperWallet.from_entropy_bits(entropy_bits=nw["n"], password=pw, testnet=test)
    hx = untext(nw["hex"])
    return PaperWallet.from_entropy_hex(hx, pw, test) if f else PaperWallet.from_entropy_hex(entropy_hex=hx, password=pw, testnet=test)


@act
def Generate(inp, tab, ev):
    """inp: mnemonic+password or seed, net, account, start, end (at most a few rows)"""
    import json as _json
    import os
    from . import tlc as _tlc
    prebuilt = None
    if inp.get("new") is not None:
        # the sentence is the library's own choice: the document is judged against the sentence the WALLET reports and
        # the passphrase that was asked for (what a reader of the MASTER block would type in again)
        prebuilt = call(_new_paper_wallet, inp)
        mn_ = getattr(prebuilt[1], "mnemonic", None) if prebuilt[0] else None
        inp["mnemonic"] = T(mn_ if isinstance(mn_, str) else "")
    finp = {k_: v_ for k_, v_ in inp.items() if k_ != "mnemonic"} if prebuilt is not None else inp
    rm = _ref_master(tab, inp)
    ev["master"] = rm.json()
    st, en = _iv(inp)
    _ref_generate(tab, rm, inp["net"], inp["account"], st, en)

    def go():
        if prebuilt is not None and not prebuilt[0]:
            raise prebuilt[1]
        w = prebuilt[1] if prebuilt is not None else _paper_wallet(inp)
        f = argform(finp, 3)
        gen = lambda: w.generate(account=inp["account"], interval=(st, en)) if f == 0 else w.generate(inp["account"], (st, en)) if f == 1 else \
            w.generate(interval=(st, en), account=inp["account"])
        if argform(finp, 2) == 0:
            # the caller edits the document it was given (strips the master block, keeps one row, appends a label) and
            # asks for it again: the second document is a fresh, complete one
            first = gen()
            try:
                first["MASTER"].clear()
                for k_ in ("BIP44", "BIP49", "BIP84"):
                    first[k_]["groups"][:] = first[k_]["groups"][:1]
                    first[k_]["account_extended_keys"]["prv"] = "edited"
                first["BIP85"] = None
            except Exception:
                pass
        data = gen()
        out = {"mnemonic": T(data["MASTER"]["mnemonic"] or ""), "password": T(data["MASTER"]["password"] or "")}
        for b in SLIP:
            blk = data[b.upper()]
            aek = blk["account_extended_keys"]
            out[b] = {"path": T(aek["path"]), "pub": T(aek["pub"]), "prv": T(aek["prv"] or ""),
                      "rows": [[T(x if x is not None else "") for x in row] for row in blk["groups"]]}
        if inp.get("json") and data["MASTER"]["mnemonic"] is not None:
            # the library's JSON rendering, parsed by TLC's own JSON reader (Gson) and compared with the tree
            p = os.path.join(_tlc.scratch_dir("json"), "wallet.json")
            text = w.json(data) if inp["json"] is True else w.json(data, indent=int(inp["json"]))
            def skel(x):
                if isinstance(x, dict):
                    return {k_: skel(v_) for k_, v_ in x.items()}
                if isinstance(x, (list, tuple)):
                    return [skel(v_) for v_ in x]
                return type(x).__name__
            try:
                back = _json.loads(text)
                if skel(back) != skel(_json.loads(_json.dumps(data))):
                    # a value changed its KIND (a string became a list ...): TLC cannot compare values of different kinds
                    ev["jsonbad"] = True
                    raise KeyError
                with open(p, "w") as f:
                    f.write(text)
                ev["jsonfile"] = p
                ev["tree"] = data
            except KeyError:
                pass
            except ValueError:
                ev["jsonbad"] = True           # not even well-formed JSON (TLC's reader is not given the file)
        return out
    ok, v = call(go)
    ev["res"] = res_of(ok, v)


@act
def GenerateOrder(inp, tab, ev):
    """a LONG interval in one call: only the row paths (count, order, index) are projected"""
    st, en = _iv(inp)

    def go():
        w = _paper_wallet(inp)
        data = w.generate(account=inp["account"], interval=(st, en))
        return {b: [T(str(row[0])) for row in data[b.upper()]["groups"]] for b in SLIP}
    ok, v = call(go)
    ev["res"] = res_of(ok, v)


@act
def Wasabi(inp, tab, ev):
    import json as _json
    from . import refwallet as W
    H = W.HARD
    rm = _ref_master(tab, inp)
    ev["master"] = rm.json()
    n = W.derive(tab, rm, [84 + H, H, H])
    W.ser(tab, n, W.VERSIONS[("pub", inp["net"], "bip44")], False)
    tab.hash160(rm.K)

    def go():
        d = _json.loads(_paper_wallet(inp).wasabi_json())
        return {"xpub": T(d["ExtPubKey"]), "fp": T(d["MasterFingerprint"])}
    ok, v = call(go)
    ev["res"] = res_of(ok, v)


@act
def Bip85Data(inp, tab, ev):
    from btc_hd_wallet.bip39_wordlist import word_list
    from . import refwallet as W
    rm = _ref_master(tab, inp)
    ev["master"] = rm.json()
    wt = []
    for app, p, i in (("mnemonic", 24, 0), ("mnemonic", 18, 0), ("mnemonic", 12, 0), ("wif", 0, 0), ("wif", 0, 1), ("wif", 0, 2),
                      ("xprv", 0, 0), ("xprv", 0, 1), ("xprv", 0, 2)):
        wt += W.ref_bip85(tab, rm, app, p, i, None, word_list) or []
    ev["wordtab"] = wt
    ok, v = call(lambda: [[T(k), T(val)] for k, val in _paper_wallet(inp).bip85_data().items()])
    ev["res"] = res_of(ok, v)


def tree_leaves(data, prefix=""):
    """every string leaf at every nesting depth: (pointer, string)"""
    out = []
    if isinstance(data, dict):
        for k, v in data.items():
            out += tree_leaves(v, prefix + "/" + str(k))
    elif isinstance(data, (list, tuple)):
        for i, v in enumerate(data):
            out += tree_leaves(v, prefix + "/" + str(i))
    elif isinstance(data, str):
        out.append((prefix, data))
    elif data is not None and not isinstance(data, bool):
        out.append((prefix, str(data)))
    return out


def leaf_role(ptr):
    parts = ptr.strip("/").split("/")
    if parts[0] == "MASTER":
        return parts[1] if parts[1] in ("mnemonic", "password") else "other"
    if parts[0] == "BIP85":
        return "bip85"
    if parts[0] in ("BIP44", "BIP49", "BIP84"):
        if parts[1] == "account_extended_keys":
            return parts[2] if parts[2] in ("path", "pub", "prv") else "other"
        if parts[1] == "groups" and len(parts) == 4:
            return ["path", "addr", "sec", "wif"][int(parts[3])] if int(parts[3]) < 4 else "other"
    return "other"


@act
def Paranoia(inp, tab, ev):
    from btc_hd_wallet.__main__ import paranoia_mode
    from btc_hd_wallet.bip39_wordlist import word_list

    cli_stderr = []

    def cli_filtered():
        """the same request through the command line: --paranoia ... printed to stdout, or saved with --file"""
        import json as _json
        import shutil
        import tempfile
        from . import clirun
        st, en = _iv(inp)
        args = ["--paranoia"] + (["--testnet"] if inp["net"] == "test" else []) + ["--account", str(inp["account"]),
                                                                                   "--interval", str(st), str(en)]
        if inp["via"] == "cli-file":
            args = ["--file", "out.json"] + args
        if inp.get("seed") is not None:
            args += ["from-bip39-seed", bytes(inp["seed"]).hex()]
        else:
            args += ["from-mnemonic", untext(inp["mnemonic"]), "--password", untext(inp["password"])]
        d = tempfile.mkdtemp(prefix="par.", dir="/dev/shm" if os.path.isdir("/dev/shm") else None)
        try:
            code, out, err, opened = clirun.run_inprocess(args, d)
            if code != 0:
                raise RuntimeError("command line refused the request (exit %r): %s" % (code, err[-200:]))
            cli_stderr.append(err)
            text = out
            if inp["via"] == "cli-file":
                with open(os.path.join(d, "out.json")) as f:
                    text = f.read()
            try:
                return _json.loads(text)
            except ValueError:
                return {"raw": text}           # not JSON: judged as one string
        finally:
            shutil.rmtree(d, ignore_errors=True)

    def go():
        w = _paper_wallet(inp)
        data = w.generate(account=inp["account"], interval=_iv(inp))
        if inp.get("via", "api") != "api":
            data = json.loads(json.dumps(data))
            filt = cli_filtered()
        else:
            filt = paranoia_mode(data=data)
        full_l = tree_leaves(data)
        filt_l = tree_leaves(filt)
        if cli_stderr and cli_stderr[0].strip():
            filt_l.append(("/stderr", cli_stderr[0]))       # what the command writes to standard error is output too
        ev["full"] = [{"ptr": T(p), "role": leaf_role(p), "s": T(s)} for p, s in full_l]
        ev["filt"] = [{"ptr": T(p), "role": leaf_role(p), "s": T(s)} for p, s in filt_l]
        for p, s in full_l + filt_l:
            emitted_address_oracle(tab, s)
        if any(len(s.split(" ")) >= 12 for p, s in filt_l):
            ev["words"] = [T(str(x)) for x in word_list]
        return {"nfull": len(full_l), "nfilt": len(filt_l)}
    ok, v = call(go)
    ev.setdefault("full", [])
    ev.setdefault("filt", [])
    ev["res"] = res_of(ok, v)


@act
def VersionParse(inp, tab, ev):
    from btc_hd_wallet.wallet_utils import Version, Key, Bip
    v = int.from_bytes(bytes(inp), "big")

    def go():
        ver = Version.parse(version_int=v)
        bip = {Bip.BIP44.value: "bip44", Bip.BIP49.value: "bip49", Bip.BIP84.value: "bip84"}[ver.bip_type.value]
        return {"prv": ver.key_type == Key.PRV, "net": "test" if ver.testnet else "main", "bip": bip,
                "back": B(int(ver).to_bytes(4, "big"))}
    ok, r = call(go)
    ev["res"] = res_of(ok, r)


# ------------------------------------------- growth beyond the listed properties
def _merkle_oracles(tab, hs):
    hs = [bytes(h) for h in hs]
    while len(hs) > 1:
        if len(hs) % 2:
            hs = hs + [hs[-1]]
        hs = [tab.hash256(hs[i] + hs[i + 1]) for i in range(0, len(hs), 2)]


@act
def MerkleLevel(inp, tab, ev):
    from btc_hd_wallet import helper
    _merkle_oracles(tab, inp)
    lst = [bytes(h) for h in inp]
    ok, v = call(helper.merkle_parent_level, lst)
    ev["after"] = [B(h) for h in lst]
    ev["res"] = res_of(ok, v, lambda lv: [B(h) for h in lv])


@act
def MerkleRoot(inp, tab, ev):
    from btc_hd_wallet import helper
    _merkle_oracles(tab, inp)
    lst = [bytes(h) for h in inp]
    ok, v = call(helper.merkle_root, lst)
    ev["res"] = res_of(ok, v, B)


@act
def ScriptAdd(inp, tab, ev):
    from btc_hd_wallet.script import Script
    a, b = Script(cmds_to_py(inp["a"])), Script(cmds_to_py(inp["b"]))

    def go():
        s = a + b
        return {"cmds": cmds_to_json(s.cmds), "raw": B(s.raw_serialize())}
    ok, v = call(go)
    ev["res"] = res_of(ok, v)


@act
def Bech32DecodeAddress(inp, tab, ev):
    from btc_hd_wallet import helper
    ok, v = call(helper.bech32_decode_address, untext(inp))
    ev["res"] = res_of(ok, v, B)
