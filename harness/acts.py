"""Event constructors: one function per trace action.  Each executes ONE public
call of the implementation under test (imported from /repo's working tree),
projects the outcome to JSON and fills the oracle table from refprims.  The
same functions re-execute an event from a replay file."""
from . import refprims as R
from .core import B, T, untext

ACTS = {}


def act(fn):
    ACTS[fn.__name__] = fn
    return fn


def call(fn, *a, **kw):
    """Run one call of the code under test -> ('ok', value) / ('err', exc)."""
    try:
        return True, fn(*a, **kw)
    except Exception as ex:      # any exception is "an error" (class never constrained)
        return False, ex


def res_of(ok, v, proj=lambda x: x):
    if ok:
        return {"ok": True, "v": proj(v)}
    return {"ok": False, "exc": type(v).__name__}


def make(name, inp, eid=0):
    """Build the event for action `name` on JSON input `inp`."""
    tab = R.Table()
    ev = {"id": eid, "act": name, "inp": inp}
    extra = ACTS[name](inp, tab, ev)
    if extra:
        ev.update(extra)
    ev["o"] = tab.rows
    return ev


# ----------------------------------------------------------------- C10 base58
@act
def B58Enc(inp, tab, ev):
    from btc_hd_wallet import helper
    ok, v = call(helper.encode_base58, bytes(inp))
    ev["res"] = res_of(ok, v, T)


@act
def B58Dec(inp, tab, ev):
    from btc_hd_wallet import helper
    ok, v = call(helper.decode_base58, untext(inp))
    ev["res"] = res_of(ok, v, B)


@act
def B58EncCheck(inp, tab, ev):
    from btc_hd_wallet import helper
    tab.hash256(bytes(inp))
    ok, v = call(helper.encode_base58_checksum, bytes(inp))
    ev["res"] = res_of(ok, v, T)


@act
def B58DecCheck(inp, tab, ev):
    from btc_hd_wallet import helper
    s = untext(inp)
    body = R.b58check_body(s)
    if body is not None:
        tab.hash256(body)
    ok, v = call(helper.decode_base58_checksum, s)
    ev["res"] = res_of(ok, v, B)


# ---------------------------------------------------------------- C19 wire
def cmds_to_py(cmds):
    return [c["op"] if "op" in c else bytes(c["d"]) for c in cmds]


def cmds_to_json(cmds):
    return [{"op": c} if isinstance(c, int) else {"d": B(c)} for c in cmds]


def le_trim(n):
    return B(n.to_bytes((n.bit_length() + 7) // 8, "little"))


@act
def ScriptSer(inp, tab, ev):
    from btc_hd_wallet.script import Script
    sc = Script(cmds_to_py(inp["cmds"]))
    ok, v = call(sc.raw_serialize if inp["raw"] else sc.serialize)
    ev["res"] = res_of(ok, v, B)


@act
def ScriptParse(inp, tab, ev):
    from io import BytesIO
    from btc_hd_wallet.script import Script
    s = BytesIO(bytes(inp))
    ok, v = call(Script.parse, s)
    ev["res"] = res_of(ok, v, lambda sc: {"cmds": cmds_to_json(sc.cmds), "used": s.tell()})


@act
def VarintEnc(inp, tab, ev):
    from btc_hd_wallet import helper
    ok, v = call(helper.encode_varint, int.from_bytes(bytes(inp), "little"))
    ev["res"] = res_of(ok, v, B)


@act
def VarintRead(inp, tab, ev):
    from io import BytesIO
    from btc_hd_wallet import helper
    s = BytesIO(bytes(inp))
    ok, v = call(helper.read_varint, s)
    ev["res"] = res_of(ok, v, lambda n: {"val": le_trim(n), "used": s.tell()})


# -------------------------------------------------------------- C11 bech32
@act
def SegwitEnc(inp, tab, ev):
    from btc_hd_wallet import bech32
    ok, v = call(bech32.encode, untext(inp["hrp"]), inp["ver"], list(inp["prog"]))
    if ok and v is None:
        ev["res"] = {"ok": False, "exc": "None"}
    else:
        ev["res"] = res_of(ok, v, T)


@act
def SegwitDec(inp, tab, ev):
    from btc_hd_wallet import bech32
    ok, v = call(bech32.decode, untext(inp["hrp"]), untext(inp["addr"]))
    if ok and (v[0] is None or v[1] is None):
        ev["res"] = {"ok": False, "exc": "None"}
    else:
        ev["res"] = res_of(ok, v, lambda t: {"ver": t[0], "prog": list(t[1])})


# ------------------------------------------------------------------ C17 paths
def idx_json(v):
    """child number -> 4 big-endian bytes, or [-1] when it is not a 32-bit number."""
    if isinstance(v, int) and not isinstance(v, bool) and 0 <= v < 2 ** 32:
        return B(v.to_bytes(4, "big"))
    return [-1]


def node_json(n):
    """projection of a Prv/PubKeyNode to the abstract node record"""
    from btc_hd_wallet.bip32 import PrvKeyNode
    d = {"c": B(n.chain_code), "depth": n.depth, "idx": idx_json(n.index), "pfp": B(n.parent_fingerprint),
         "net": "test" if n.testnet else "main", "prv": type(n) is PrvKeyNode}
    if type(n) is PrvKeyNode:
        d["k"] = B(bytes(n.private_key))
    d["K"] = B(n.public_key.sec())
    return d


def ref_parse_path(s):
    """Harness-side reading of a path string, used ONLY to decide which
    iterated-derivation tables to attach (candidate index lists)."""
    toks = s.split("/")
    out = []
    for t in toks[1:]:
        hard = t[-1:] in ("'", "h")
        body = t[:-1] if hard else t
        if not body or not all("0" <= c <= "9" for c in body):
            return None
        v = int(body)
        if v >= 2 ** 32 or (hard and v >= 2 ** 31):
            return None
        out.append(v + (2 ** 31 if hard else 0))
    return out


WALLETS = {}


def fixed_wallet(name):
    """deterministic wallets shared by path / derivation events: name = '<net>:<seedhex>'"""
    from btc_hd_wallet import PaperWallet
    if name not in WALLETS:
        net, seed = name.split(":")
        WALLETS[name] = PaperWallet.from_bip39_seed_hex(seed, testnet=(net == "test"))
    return WALLETS[name]


def fresh_wallet(name):
    from btc_hd_wallet import PaperWallet
    net, seed = name.split(":")
    return PaperWallet.from_bip39_seed_hex(seed, testnet=(net == "test"))


@act
def PathParse(inp, tab, ev):
    from btc_hd_wallet.wallet_utils import Bip32Path
    ok, v = call(lambda: Bip32Path.parse(untext(inp)))
    if ok:
        ok, v = call(lambda: {"list": [idx_json(x) for x in v.to_list()], "str": T(str(v)), "private": bool(v.private)})
    ev["res"] = res_of(ok, v)


@act
def ByPath(inp, tab, ev):
    s = untext(inp["path"])
    w = fixed_wallet(inp["wallet"])
    ok, v = call(w.by_path, s)
    ev["res"] = res_of(ok, v, lambda n: {"node": node_json(n), "repr": T(str(n))})
    folds = []
    cand = ref_parse_path(s)
    lists = []
    if cand is not None:
        lists.append(cand)
        if len(cand) > 5:
            lists.append(cand[:5])
    else:
        head = "/".join(s.split("/")[:6])
        c5 = ref_parse_path(head)
        if c5 is not None and len(s.split("/")) > 6:
            lists.append(c5)
    for l in lists:
        node = fresh_wallet(inp["wallet"]).master
        try:
            for i in l:
                node = node.ckd(i)
            folds.append({"list": [idx_json(i) for i in l], "node": node_json(node)})
        except Exception:
            pass
    ev["fold"] = folds
