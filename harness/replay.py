"""Spec -> implementation: parse behaviours written by `tlc -simulate file=...` and
step the REAL objects through the same actions.

A behaviour file is a TLA+ module with one `\\* <Action(args) line ...>` comment and
one STATE_n conjunction per state."""
import glob
import os
import re

from . import tlc


def _parse_value(s, i=0):
    """tiny parser for the TLA+ values that occur in action arguments and `obs`:
    strings, integers, tuples, TRUE/FALSE; records are returned as dicts."""
    n = len(s)
    while i < n and s[i].isspace():
        i += 1
    if s.startswith("<<", i):
        i += 2
        out = []
        while True:
            while i < n and (s[i].isspace() or s[i] == ","):
                i += 1
            if s.startswith(">>", i):
                return out, i + 2
            v, i = _parse_value(s, i)
            out.append(v)
    if s[i] == "[":
        i += 1
        d = {}
        while True:
            while i < n and (s[i].isspace() or s[i] == ","):
                i += 1
            if s[i] == "]":
                return d, i + 1
            m = re.match(r"(\w+)\s*\|->\s*", s[i:])
            k = m.group(1)
            i += m.end()
            v, i = _parse_value(s, i)
            d[k] = v
    if s[i] == "{":
        i += 1
        out = []
        while True:
            while i < n and (s[i].isspace() or s[i] == ","):
                i += 1
            if s[i] == "}":
                return out, i + 1
            v, i = _parse_value(s, i)
            out.append(v)
    if s[i] == '"':
        j = s.index('"', i + 1)
        return s[i + 1:j], j + 1
    m = re.match(r"-?\d+", s[i:])
    if m:
        return int(m.group(0)), i + m.end()
    m = re.match(r"TRUE|FALSE", s[i:])
    if m:
        return m.group(0) == "TRUE", i + m.end()
    raise ValueError("cannot parse TLA+ value at %r" % s[i:i + 40])


def parse_behaviour(text, variables=("obs",)):
    """-> list of steps: {"action": name, "args": [...], <var>: value ...} (one per state)"""
    steps = []
    parts = re.split(r"\n(?=\\\* <)", text)
    for part in parts:
        m = re.match(r"\\\* <(\w+)(\((.*)\))? line \d+", part)
        if not m:
            continue
        name = m.group(1)
        args = []
        if m.group(3):
            args, _ = _parse_value("<<" + m.group(3) + ">>")
        st = {"action": name, "args": args}
        for v in variables:
            mm = re.search(r"^/\\ %s = (.*?)(?=^/\\ |\Z)" % v, part, re.S | re.M)
            if mm:
                st[v], _ = _parse_value(mm.group(1).strip())
        steps.append(st)
    return steps


def simulate(module, cfg, num, depth, seed, variables=("obs",), timeout=600, workers=1):
    """run TLC in simulation mode and return the parsed behaviours"""
    d = tlc.scratch_dir("sim")
    r = tlc.run_tlc(module, cfg, workers=workers,
                    args=["-simulate", "file=%s/tr,num=%d" % (d, num), "-depth", str(depth), "-seed", str(seed)],
                    timeout=timeout)
    if "Error" in r.out and "TIMEOUT" not in r.out:
        raise tlc.MachineryError("simulation of %s failed:\n%s" % (module, "\n".join(r.out.splitlines()[-30:])))
    out = []
    for f in sorted(glob.glob(os.path.join(d, "tr_*"))):
        with open(f) as fh:
            out.append(parse_behaviour(fh.read(), variables))
    import shutil
    shutil.rmtree(d, ignore_errors=True)
    m = re.search(r"The number of states generated: (\d+)", r.out)
    return out, (int(m.group(1)) if m else 0)
