"""Concretisation and execution of command-line vectors (C20)."""
import builtins
import contextlib
import hashlib
import io
import json
import os
import runpy
import shutil
import subprocess
import sys
import tempfile

from . import refprims as R, refwallet as W

ABANDON = "abandon"
_tab = R.Table()
SEED = bytes(range(64))
_rm = W.master(_tab, SEED, "main")
MASTER_XPRV = W.ser(_tab, _rm, W.VERSIONS[("prv", "main", "bip44")], True)
_rt = W.master(_tab, SEED, "test")
MASTER_TPRV = W.ser(_tab, _rt, W.VERSIONS[("prv", "test", "bip44")], True)
_child = W.ckd_priv(_tab, _rm, 2 ** 31 + 7)
CHILD_XPRV = W.ser(_tab, _child, W.VERSIONS[("prv", "main", "bip44")], True)
XPUB = W.ser(_tab, W.neuter(_rm), W.VERSIONS[("pub", "main", "bip44")], False)
UNKNOWN = R.b58check_enc((0x0488ADE5).to_bytes(4, "big") + W.payload(_rm, 0x0488ADE4, True)[4:])
assert len(MASTER_XPRV) == 111 and len(UNKNOWN) == 111

WORDS = {"12-words": 12, "15-words": 15, "18-words": 18, "21-words": 21, "24-words": 24, "11-words": 11, "13-words": 13, "25-words": 25}
VEC12 = "legal winner thank year wave sausage worth useful legal winner thank yellow"

ACCOUNT = {"0": "0", "5": "5", "2^31-2": str(2 ** 31 - 2), "2^31-1": str(2 ** 31 - 1), "2^31": str(2 ** 31), "-1": "-1", "x": "x",
           "+5": "+5", " 7": " 7", "1_0": "1_0"}
BOUND = {"-1": "-1", "0": "0", "1": "1", "3": "3", "2^31-1": str(2 ** 31 - 1), "2^31": str(2 ** 31), "2^31+1": str(2 ** 31 + 1),
         "2^32-2": str(2 ** 32 - 2), "2^32-1": str(2 ** 32 - 1), "x": "x"}
FILE = {"absent": "out.json", "existing": "exist.json", "dir": "adir", "symlink-to-file": "lnk", "dangling-symlink": "dang",
        "parent-missing": os.path.join("nodir", "out.json"), "empty-string": "",
        "symlink-rel-in-subdir": os.path.join("sub", "rel_lnk"), "symlink-up": os.path.join("sub", "up_lnk"),
        "symlink-abs-to-file": "abs_lnk", "symlink-to-dir": "dir_lnk", "existing-dotdot": os.path.join("sub", "..", "exist.json"),
        "absent-in-subdir": os.path.join("sub", "new.json"),
        "absent-trailing-slash": "fresh.json/", "symlink-loop": "loop_lnk", "dangling-into-missing-dir": "dang2",
        "absent-no-extension": "paper", "existing-empty": "empty.json"}
PRECIOUS = ("exist.json", "keep.json", "lnk", "adir", "rel_lnk", "up_lnk", "abs_lnk", "dir_lnk", "paper.json", "paper.txt", "empty.json")
PW = {"none": None, "ascii": "pw", "nfkd-sensitive": "p\u00e4ss\ufb01\uff11\u2126", "blank-padded": "  two  blanks ", "empty": "",
      "json-like": '[ a ] { "k" : [ 1 , 2 ] } \\ "q" ,\n\t: [\n    x\n]',
      "at-existing-file": "@exist.json"}


def cmd_args(cmd, arg, password=None):
    if cmd == "none":
        return []
    if cmd == "new":
        a = ["new"]
        if arg != "len-default":
            a += ["--mnemonic-len", arg.split("-")[1]]
    elif cmd == "from-master-xprv":
        v = {"master-xprv": MASTER_XPRV, "master-tprv": MASTER_TPRV, "child-xprv": CHILD_XPRV, "xpub": XPUB, "110-chars": MASTER_XPRV[:-1],
             "112-chars": MASTER_XPRV + "1", "bad-checksum": MASTER_XPRV[:-1] + ("2" if MASTER_XPRV[-1] != "2" else "3"),
             "unknown-version": UNKNOWN}[arg]
        return ["from-master-xprv", v]
    elif cmd == "from-mnemonic":
        if arg in WORDS:
            m = VEC12 if arg == "12-words" else " ".join([ABANDON] * WORDS[arg])
        elif arg == "12-words-padded":
            m = " " + VEC12 + " "
        else:
            m = " ".join(["zzzz"] * 12)
        a = ["from-mnemonic", m]
    elif cmd == "from-bip39-seed":
        v = {"128-hex": SEED.hex(), "126-hex": SEED.hex()[:-2], "130-hex": SEED.hex() + "00", "128-nonhex": "zz" * 64}[arg]
        return ["from-bip39-seed", v]
    else:
        n = {"32-hex": 32, "40-hex": 40, "48-hex": 48, "56-hex": 56, "64-hex": 64, "31-hex": 31, "33-hex": 33, "65-hex": 65}.get(arg)
        v = ("0f" * 40)[:n] if n else ("g" * 32 if arg == "32-nonhex" else ("00 " * 11)[:32])
        a = ["from-entropy-hex", v]
    if password is not None:
        a += ["--password", password]
    return a


def argv_of(vec, password=None):
    if password is None:
        password = PW[vec.get("pw", "none")]
    a = []
    if vec["file"] != "none":
        # both spellings of the option
        a += ["-f" if (vec["account"] == "default" and vec["testnet"]) else "--file", FILE[vec["file"]]]
    if vec.get("help"):
        tail = cmd_args(vec["cmd"], vec["arg"], password)
        # --help of the sub-command when there is one (before its positional), else the global one
        return a + (tail[:1] + ["--help"] if tail else ["--help"])
    if vec["testnet"]:
        a.append("--testnet")
    if vec["paranoia"]:
        a.append("--paranoia")
    if vec["account"] != "default":
        a += ["--account", ACCOUNT[vec["account"]]]
    if not (vec["start"] == "0" and vec["end"] == "3" and vec.get("default_interval")):
        a += ["--interval", BOUND[vec["start"]], BOUND[vec["end"]]]
    tail = cmd_args(vec["cmd"], vec["arg"], password)
    if password is not None and "--password" not in tail:
        tail = tail + ["--password", password]            # sub-commands without that option: given all the same
    return a + tail


def make_dir():
    d = tempfile.mkdtemp(prefix="cli.", dir="/dev/shm" if os.path.isdir("/dev/shm") else None)
    with open(os.path.join(d, "exist.json"), "w") as f:
        f.write("PRECIOUS\n")
    os.mkdir(os.path.join(d, "adir"))
    os.symlink("exist.json", os.path.join(d, "lnk"))
    os.symlink("nowhere.json", os.path.join(d, "dang"))
    os.mkdir(os.path.join(d, "sub"))
    with open(os.path.join(d, "sub", "keep.json"), "w") as f:
        f.write("PRECIOUS TOO\n")
    os.symlink("keep.json", os.path.join(d, "sub", "rel_lnk"))          # relative to the link's own directory
    os.symlink(os.path.join("..", "exist.json"), os.path.join(d, "sub", "up_lnk"))
    os.symlink(os.path.join(d, "exist.json"), os.path.join(d, "abs_lnk"))
    os.symlink("adir", os.path.join(d, "dir_lnk"))
    os.symlink("loop_lnk", os.path.join(d, "loop_lnk"))
    os.symlink(os.path.join("nodir2", "target.json"), os.path.join(d, "dang2"))
    with open(os.path.join(d, "empty.json"), "w"):                       # exists, zero bytes
        pass
    for nm in ("paper.json", "paper.txt", "paper.json.json"):           # neighbours of the suffix-less name "paper"
        with open(os.path.join(d, nm), "w") as f:
            f.write("PRECIOUS NEIGHBOUR %s\n" % nm)
    # bystanders: files an export routine might use as scratch next to the requested name (temporary, backup, lock,
    # editor-swap names of every creatable target) - they exist already and are somebody's data
    for target in ("out.json", os.path.join("sub", "new.json"), "nowhere.json"):
        base, name = os.path.split(target)
        stem = name.rsplit(".", 1)[0]
        for by in (name + ".tmp", name + ".bak", name + "~", name + ".part", name + ".new", name + ".lock", name + ".swp",
                   "." + name + ".swp", "." + name + ".tmp", stem + ".tmp", stem, "tmp", name + ".tmp~"):
            with open(os.path.join(d, base, by), "w") as f:
                f.write("BYSTANDER %s\n" % by)
    return d


def snapshot(d):
    out = {}
    for root, dirs, files in os.walk(d):
        for n in dirs + files:
            p = os.path.join(root, n)
            rel = os.path.relpath(p, d)
            st = os.lstat(p)
            if os.path.islink(p):
                out[rel] = ("link", os.readlink(p), st.st_mtime_ns)
            elif os.path.isdir(p):
                out[rel] = ("dir", "", 0)
            else:
                with open(p, "rb") as f:
                    out[rel] = ("file", hashlib.sha256(f.read()).hexdigest(), st.st_mtime_ns)
    return out


def classify_text(s):
    t = s.strip()
    if t == "":
        return "empty", None
    try:
        d = json.loads(t)
    except Exception:
        return ("help" if t.startswith("usage:") else "other"), None
    if isinstance(d, dict) and any(k in d for k in ("BIP44", "BIP49", "BIP84", "MASTER", "BIP85")):
        return ("wallet" if ("MASTER" in d or "BIP85" in d) else "wallet-filtered"), d
    return "other", None


def run_inprocess(args, cwd):
    out, err = io.StringIO(), io.StringIO()
    opened = []
    real_open = builtins.open

    def spy(file, mode="r", *a, **kw):
        if isinstance(mode, str) and any(c in mode for c in "wax+"):
            opened.append(os.fspath(file) if not isinstance(file, int) else str(file))
        return real_open(file, mode, *a, **kw)
    old_argv, old_cwd = sys.argv, os.getcwd()
    sys.argv = ["btc_hd_wallet"] + list(args)
    os.chdir(cwd)
    builtins.open = spy
    code = 0
    try:
        with contextlib.redirect_stdout(out), contextlib.redirect_stderr(err):
            try:
                runpy.run_module("btc_hd_wallet", run_name="__main__", alter_sys=False)
            except SystemExit as ex:
                code = ex.code if isinstance(ex.code, int) else (0 if ex.code is None else 1)
            except BaseException:
                code = 1
    finally:
        builtins.open = real_open
        sys.argv = old_argv
        os.chdir(old_cwd)
    return code, out.getvalue(), err.getvalue(), opened


def run_subprocess(args, cwd, repo=None):
    from .core import REPO
    env = dict(os.environ, PYTHONPATH=repo or REPO, PYTHONDONTWRITEBYTECODE="1")
    try:
        p = subprocess.run(["/venv/bin/python", "-m", "btc_hd_wallet"] + list(args), cwd=cwd, env=env, stdout=subprocess.PIPE,
                           stderr=subprocess.PIPE, timeout=TIMEOUT[0])
    except subprocess.TimeoutExpired:
        return "timeout", "", "did not finish within %d s" % TIMEOUT[0], []
    return p.returncode, p.stdout.decode("utf-8", "replace"), p.stderr.decode("utf-8", "replace"), []


TIMEOUT = [300]


def run_subprocess_closed_stdout(args, cwd, repo=None):
    """the program's standard output is a pipe whose reader is already gone: nothing can be delivered"""
    from .core import REPO
    env = dict(os.environ, PYTHONPATH=repo or REPO, PYTHONDONTWRITEBYTECODE="1")
    r, w = os.pipe()
    os.close(r)
    try:
        p = subprocess.run(["/venv/bin/python", "-m", "btc_hd_wallet"] + list(args), cwd=cwd, env=env, stdout=w,
                           stderr=subprocess.PIPE, timeout=300)
    finally:
        os.close(w)
    return p.returncode, "", p.stderr.decode("utf-8", "replace"), []


def spec_filter(data):
    """the paranoia whitelist as PaperWallet.tla states it"""
    return {k: {"account_extended_keys": {"path": v["account_extended_keys"]["path"], "pub": v["account_extended_keys"]["pub"]},
                "groups": [row[:-1] for row in v["groups"]]}
            for k, v in data.items() if k in ("BIP44", "BIP49", "BIP84")}


def api_result(vec, emitted, password=None):
    """what the library API returns for the same source secret, network, account and interval"""
    from btc_hd_wallet import PaperWallet
    test = vec["testnet"]
    if password is None:
        password = PW[vec.get("pw", "none")] or ""
    c, a = vec["cmd"], cmd_args(vec["cmd"], vec["arg"])
    if c == "new":
        m = (emitted or {}).get("MASTER", {}).get("mnemonic")
        if m is None:
            return None
        w = PaperWallet.from_mnemonic(m, password, testnet=test)
    elif c == "from-master-xprv":
        w = PaperWallet.from_extended_key(a[1])
    elif c == "from-mnemonic":
        w = PaperWallet.from_mnemonic(a[1].strip(), password, testnet=test)
    elif c == "from-bip39-seed":
        w = PaperWallet.from_bip39_seed_hex(a[1], testnet=test)
    else:
        w = PaperWallet.from_entropy_hex(a[1], password, testnet=test)
    acct = int(ACCOUNT.get(vec["account"], "0")) if vec["account"] != "default" else 0
    data = w.generate(account=acct, interval=(int(BOUND[vec["start"]]), int(BOUND[vec["end"]])))
    return json.loads(json.dumps(data))


def observe(vec, mode, password=None):
    """run one vector; -> observation record for Trace_Cli"""
    d = make_dir()
    try:
        before = snapshot(d)
        args = argv_of(vec, password)
        # where a file may appear: at the path that was asked for (for a link: at the place it names), nowhere else
        wanted = set()
        if vec.get("file", "none") != "none" and FILE[vec["file"]]:
            wanted.add(os.path.normpath(FILE[vec["file"]]))
            wanted.add(os.path.relpath(os.path.realpath(os.path.join(d, FILE[vec["file"]])), os.path.realpath(d)))
        code, out, err, opened = (run_inprocess if mode == "inprocess" else run_subprocess_closed_stdout if mode == "closedpipe"
                                  else run_subprocess)(args, d)
        after = snapshot(d)
        created = sorted(set(after) - set(before))
        changed = [k for k in before if k in after and after[k] != before[k]]
        removed = sorted(set(before) - set(after))
        cls, data = classify_text(out)
        content, cdata = cls, data
        if created:
            for k in created:
                if after[k][0] == "file":
                    with open(os.path.join(d, k)) as f:
                        content, cdata = classify_text(f.read())
        net = "none"
        rowpaths = []
        equals = True
        if code == 0 and cdata is not None:
            blk = cdata.get("BIP44") or cdata.get("BIP49") or cdata.get("BIP84") or {}
            p = blk.get("account_extended_keys", {}).get("path", "")
            parts = p.split("/")
            net = "test" if len(parts) > 2 and parts[2] == "1'" else "main" if len(parts) > 2 and parts[2] == "0'" else "none"
            for k in ("BIP44", "BIP49", "BIP84"):
                for row in cdata.get(k, {}).get("groups", []):
                    rowpaths.append([ord(c) for c in str(row[0])])
            try:
                exp = api_result(vec, cdata if vec["cmd"] == "new" else None, password)
                if exp is None:
                    equals = vec["cmd"] == "new" and vec["paranoia"]
                else:
                    if vec["paranoia"]:
                        exp = spec_filter(exp)
                    equals = (cdata == exp)
            except Exception:
                equals = False
        elif code == 0:
            equals = False
        obs = {"exit": 0 if code == 0 else 1, "raw_exit": code if isinstance(code, int) else 1, "timed_out": code == "timeout", "stdout": cls, "content": content,
               "created": bool(created), "overwrote": bool(changed or removed), "fs_changed": bool(created or changed or removed),
               "created_elsewhere": any(k not in wanted and not any(w_.startswith(k + os.sep) for w_ in wanted) for k in created),
               "net": net, "rowpaths": rowpaths, "equals_api": bool(equals),
               "opened_existing": [o for o in opened if os.path.basename(o) in PRECIOUS]}
        if obs["opened_existing"]:
            obs["overwrote"] = True
        return obs, {"args": args, "stderr_tail": err[-300:], "emitted": cdata}
    finally:
        shutil.rmtree(d, ignore_errors=True)
