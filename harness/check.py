"""./check <Cxx> --tier quick|thorough [--replay path]

exit 0: the property held on everything explored (KNOWN-FINDING lines allowed)
exit 1: at least one `VIOLATION property=<id> replay=<path>` line was printed
exit 2: the machinery itself failed (nothing is claimed)"""
import argparse
import importlib
import os
import sys
import traceback

from . import core, tlc


def main():
    ap = argparse.ArgumentParser()
    ap.add_argument("prop")
    ap.add_argument("--tier", default=os.environ.get("VERIF_TIER") or "quick",
                    choices=["quick", "thorough"])
    ap.add_argument("--replay")
    a = ap.parse_args()
    if os.environ.get("VERIF_TIER") in ("quick", "thorough"):
        a.tier = os.environ["VERIF_TIER"]
    seed = int(os.environ.get("VERIF_SEED", "0") or 0)
    core.repo_on_path()
    try:
        mod = importlib.import_module("harness.props." + a.prop.lower())
    except ImportError:
        traceback.print_exc()
        print("no check for property %s" % a.prop)
        return 2
    ctx = core.Ctx(a.prop.upper(), a.tier, seed)
    try:
        if a.replay:
            rc = mod.replay(ctx, a.replay)
        else:
            rc = mod.run(ctx)
    except tlc.MachineryError as ex:
        print("MACHINERY-FAILURE property=%s: %s" % (a.prop, ex))
        rc = 2
    except Exception:
        traceback.print_exc()
        print("MACHINERY-FAILURE property=%s: unexpected exception in the harness" % a.prop)
        rc = 2
    finally:
        tlc.cleanup()
    return rc


if __name__ == "__main__":
    sys.exit(main())
