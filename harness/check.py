"""./check <Cxx> --tier quick|thorough [--replay path]

exit 0: the property held on everything explored (KNOWN-FINDING lines allowed)
exit 1: at least one `VIOLATION property=<id> replay=<path>` line was printed
exit 2: the machinery itself failed (nothing is claimed)"""
import argparse
import importlib
import os
import sys
import traceback

from . import core, tlc


def main():
    ap = argparse.ArgumentParser()
    ap.add_argument("prop")
    ap.add_argument("--tier", default=None, choices=["quick", "thorough"])
    ap.add_argument("--replay")
    a = ap.parse_args()
    if a.tier is None:          # an explicit --tier wins; VERIF_TIER is only the default
        a.tier = os.environ["VERIF_TIER"] if os.environ.get("VERIF_TIER") in ("quick", "thorough") else "quick"
    seed = int(os.environ.get("VERIF_SEED", "0") or 0)
    core.repo_on_path()
    try:
        mod = importlib.import_module("harness.props." + a.prop.lower())
    except ImportError:
        traceback.print_exc()
        print("no check for property %s" % a.prop)
        return 2
    ctx = core.Ctx(a.prop.upper(), a.tier, seed)
    try:
        if a.replay and core.load_replay(a.replay).get("mode") == "escape":
            rc = mod.run(ctx)           # an exception that escaped from the library: the whole check is the replay
        elif a.replay:
            rc = mod.replay(ctx, a.replay)
        else:
            rc = mod.run(ctx)
    except tlc.MachineryError as ex:
        print("MACHINERY-FAILURE property=%s: %s" % (a.prop, ex))
        rc = 2
    except Exception as ex:
        traceback.print_exc()
        from .hdreplay import raised_in_library
        if raised_in_library(ex) and not a.replay:
            # The exception was raised INSIDE the code under test and nothing in the harness expected it: on the
            # unchanged tree no call made by this check raises unexpectedly, so the library's behaviour changed on an
            # input the check relies on.  Reported as a violation (with the traceback) rather than as a machinery fault.
            tb = traceback.extract_tb(ex.__traceback__)[-1]
            ctx.violation("library-exception", type(ex).__name__,
                          "%r raised at %s:%d during a call the check expects to succeed" % (ex, os.path.basename(tb.filename), tb.lineno),
                          {"mode": "escape", "traceback": traceback.format_exc()[-3000:]})
            rc = ctx.finish("model_checking", rule="run aborted by an unexpected exception inside the library", assumptions=[],
                            trusted_base=[], checker_cmd="./check %s --tier %s" % (a.prop.upper(), a.tier))
        else:
            print("MACHINERY-FAILURE property=%s: unexpected exception in the harness" % a.prop)
            rc = 2
    finally:
        tlc.cleanup()
    return rc


if __name__ == "__main__":
    sys.exit(main())
