"""Replay of HDWallet.tla behaviours (TLC simulation) on REAL wallet and node objects.

Abstract objects <<wallet, path>> are mapped to real objects that stay SHARED for the
whole behaviour; toy child numbers 0..3 map to 0..3 and 4..7 to 2^31 .. 2^31+3.  Where
the model's fixed toy PRF makes a derivation invalid, the same class is realised on the
real code by substituting the HMAC answer for exactly that (chain code, child number)
pair (IL = n), consistently for every later query, so model and implementation stay
aligned step by step.  Every result is compared with
  (a) the outcome kind the model predicts (ok / invalid / refused),
  (b) a STATELESS recomputation on fresh objects parsed from the root's serialised key,
  (c) for the watch-only wallet: the full wallet's data below the exported node,
  (d) the network tag of every emitted string."""
import json
import os
import threading

from . import refprims as R
from .recorders import PrfTap

N = R.N
HARD = 2 ** 31
KINDS = ["p2pkh", "p2wpkh", "p2sh_p2wpkh", "p2wsh", "p2sh_p2wsh"]
FLAVOUR_BIP = {"xpub": 0, "ypub": 1, "zpub": 2}


def real_index(x):
    return x if x < 4 else HARD + (x - 4)


def path_str(path, mark="m"):
    return "/".join([mark] + [(str(i - HARD) + "'") if i >= HARD else str(i) for i in path])


def net_of_string(s):
    """cheap prefix classifier used inside the replayer (the TLA+ classifier is C16's trace spec)"""
    if s[:4] in ("xpub", "xprv", "ypub", "yprv", "zpub", "zprv"):
        return "main"
    if s[:4] in ("tpub", "tprv", "upub", "uprv", "vpub", "vprv"):
        return "test"
    if s.startswith("bc1"):
        return "main"
    if s.startswith("tb1"):
        return "test"
    if s[0] in "13" and 26 <= len(s) <= 35:
        return "main"
    if s[0] in "mn2" and 26 <= len(s) <= 35:
        return "test"
    if s[0] in "KL5" and len(s) in (51, 52):
        return "main"
    if s[0] in "c9" and len(s) in (51, 52):
        return "test"
    return None


class Mismatch(Exception):
    def __init__(self, family, what):
        Exception.__init__(self, what)
        self.family = family
        self.what = what


class World:
    def __init__(self, net, seed_hex):
        from btc_hd_wallet import PaperWallet
        self.net = net
        self.test = net == "test"
        self.full = PaperWallet.from_bip39_seed_hex(seed_hex, testnet=self.test)
        self.root_xprv = self.full.master.extended_private_key()
        self.watch = None
        self.watch_src = None
        self.watch_str = None
        self.objs = {("full", ()): self.full.master}
        self.gens = {}
        self.pending = {}
        self.forced = set()
        self.lock = threading.Lock()
        self.emitted = []       # (wallet, string) for the network clause
        self.checks = 0

    # ---- PRF substitution realising the model's invalid outcomes
    def chosen(self, key, msg):
        if (key, msg[-4:]) in self.forced:
            return N.to_bytes(32, "big") + bytes(32)
        return None

    # ---- stateless reference: fresh objects from the serialised root
    def fresh_root(self, w):
        from btc_hd_wallet.bip32 import PrvKeyNode, PubKeyNode
        if w == "full":
            return PrvKeyNode.parse(self.root_xprv, testnet=self.test)
        return PubKeyNode.parse(self.watch_str, testnet=self.watch.testnet)

    def fresh(self, w, path):
        n = self.fresh_root(w)
        for i in path:
            n = n.ckd(i)
        return n

    def wallet(self, w):
        return self.full if w == "full" else self.watch

    def obj(self, w, path):
        """the shared real object for <<w, path>> (created from its parent if the model says it
        exists but the replayer has not seen it being created, e.g. inside a failed by_path)"""
        if (w, path) not in self.objs:
            par = self.obj(w, path[:-1])
            self.objs[(w, path)] = par.ckd(path[-1])
        return self.objs[(w, path)]

    def has(self, w, path):
        return w == "full" or self.watch is not None

    def wnet(self, w):
        return "test" if self.wallet(w).testnet else "main"

    @staticmethod
    def fields(n):
        return (bytes(n.key)[-32:] if len(bytes(n.key)) == 33 and bytes(n.key)[0] == 0 else bytes(n.key),
                bytes(n.chain_code), n.depth, n.index, bytes(n.parent_fingerprint), bool(n.testnet), type(n).__name__)

    def same_node(self, got, w, path, what):
        self.checks += 1
        ref = self.fresh(w, path)
        if self.fields(got) != self.fields(ref):
            raise Mismatch("purity", "%s: node at %s/%s differs from the stateless recomputation" % (what, w, path_str(path)))
        # how a node prints itself is the library's business; that it prints the same as a freshly derived node
        # at the same path is purity
        # whatever a node prints as its path, the library's own parser reads it back as the path that was requested
        # (relative to the wallet's root; deeper than five levels is not parseable by the pinned code, see D-C17b)
        if len(path) <= 5:
            from btc_hd_wallet.wallet_utils import Bip32Path
            try:
                back = Bip32Path.parse(str(got)).to_list()
            except Exception:
                back = None
            if back is not None and list(back) != list(path):
                raise Mismatch("purity", "%s: the node at %s/%s prints itself as %r" % (what, w, path_str(path), str(got)))
        if w == "full" and str(got) != str(ref):
            raise Mismatch("purity", "%s: str(node) = %r for path %s (a fresh derivation prints %r)" % (what, str(got), path_str(path), str(ref)))

    def emit(self, w, s):
        if isinstance(s, str):
            self.emitted.append((w, s))
            tag = net_of_string(s)
            self.checks += 1
            if tag is not None and tag != self.wnet(w):
                raise Mismatch("network", "%s wallet on %s emitted %r" % (w, self.wnet(w), s))


def lifetime_check(W):
    """Epilogue of a replayed behaviour: the caller keeps a few derived nodes and lets go of the wallet, the
    generators and every other node.  What the kept nodes print (and hold) afterwards is what they printed before:
    an answer does not depend on OTHER objects still being alive."""
    import gc
    keep = [(path, n) for (w, path), n in W.objs.items() if w == "full" and len(path) >= 1][-3:]
    if not keep:
        return 0

    def view(n):
        out = [World.fields(n), str(n), n.extended_public_key()]
        try:
            out.append(n.extended_private_key())
        except Exception:
            out.append(None)
        return out
    before = [(path, view(n)) for path, n in keep]
    nodes = [n for path, n in keep]
    # a deep copy / pickle round trip of the wallet answers like the wallet (skipped if the wallet does not support it)
    import copy
    import pickle
    for how, f in (("deepcopy", copy.deepcopy), ("pickle", lambda x: pickle.loads(pickle.dumps(x)))):
        try:
            w2 = f(W.full)
        except Exception:
            continue
        for path, b in before:
            try:
                n2 = w2.by_path(path_str(path))
            except Exception as ex:
                raise Mismatch("purity", "by_path(%s) on a %s of the wallet raised %r" % (path_str(path), how, ex))
            if World.fields(n2) != b[0] or n2.extended_public_key() != b[2]:
                raise Mismatch("purity", "node %s looked up on a %s of the wallet differs from the wallet's own" % (path_str(path), how))
    W.objs.clear()
    W.gens.clear()
    W.pending.clear()
    W.full = W.watch = None
    del keep
    gc.collect()
    for (path, b), n in zip(before, nodes):
        if view(n) != b:
            raise Mismatch("purity", "node %s prints differently once the wallet and all other nodes have been dropped" % path_str(path))
    return len(nodes)


def norm_path(p):
    return tuple(real_index(x) for x in p)


def raised_in_library(ex):
    """did the exception originate inside the code under test (innermost frames in btc_hd_wallet or below it),
    as opposed to the harness itself?"""
    import traceback
    frames = traceback.extract_tb(ex.__traceback__)
    files = [f.filename for f in frames]
    lib = [i for i, fn in enumerate(files) if "btc_hd_wallet" in fn]
    if not lib:
        return False
    # nothing of the harness after the last library frame
    return not any(os.sep + "harness" + os.sep in fn for fn in files[lib[-1]:])


def run_behaviour(steps, seed_hex="5e" * 64, world=None, private_gens=None, tag=""):
    """Step the real objects through one parsed behaviour.  Raises Mismatch.  An exception escaping from the
    library during a request the model answers is a mismatch as well (every request that may legitimately
    fail is handled where it is made)."""
    try:
        return _run_behaviour(steps, seed_hex, world, private_gens, tag)
    except Mismatch:
        raise
    except Exception as ex:
        if raised_in_library(ex):
            import traceback
            where = traceback.extract_tb(ex.__traceback__)[-1]
            raise Mismatch("purity", "a request on the shared objects raised %r inside the library (%s:%d) where the model answers"
                           % (ex, os.path.basename(where.filename), where.lineno))
        raise


def _run_behaviour(steps, seed_hex="5e" * 64, world=None, private_gens=None, tag=""):
    from btc_hd_wallet import PaperWallet
    from btc_hd_wallet.wallet_utils import Version, Key
    init = steps[0]
    net = init.get("net", "main")
    W = world or World(net, seed_hex)
    gens = private_gens if private_gens is not None else W.gens
    with PrfTap(W.chosen):
        for si, st in enumerate(steps[1:], 1):
            a, args, obs, pc = st["action"], st["args"], st.get("obs"), st.get("pc", {})
            if a == "CkdCompute":
                t, w, path, i = args[0], args[1], norm_path(args[2]), real_index(args[3][0])
                if not W.has(w, path):
                    continue
                ok_model = pc.get(t, ["idle"])[0] == "append"
                parent = W.obj(w, path)
                if not ok_model:
                    kind = obs[4] if (obs and obs[0] == "ckd" and len(obs) == 5) else "invalid"
                    if kind == "invalid":
                        W.forced.add((bytes(parent.chain_code), i.to_bytes(4, "big")))
                before = W.fields(parent)
                try:
                    child = parent.ckd(i)
                    err = None
                except Exception as ex:
                    child, err = None, ex
                W.checks += 1
                if ok_model and err is not None:
                    raise Mismatch("purity", "ckd(%d) on %s/%s raised %r where the model derives a child" % (i, w, path_str(path), err))
                if not ok_model and err is None:
                    raise Mismatch("purity" if w == "full" else "watch",
                                   "ckd(%d) on %s/%s returned a node where the model reports an error" % (i, w, path_str(path)))
                if W.fields(parent) != before:
                    raise Mismatch("purity", "ckd changed its parent")
                if child is not None:
                    W.same_node(child, w, path + (i,), "ckd")
                    W.objs.setdefault((w, path + (i,)), child)
            elif a == "CkdAppend":
                pass
            elif a == "ByPath":
                t, w, path = args[0], args[1], norm_path(args[2])
                if not W.has(w, path):
                    continue
                ok_model = obs[3] == "ok"
                if not ok_model and obs[3] == "invalid":
                    g = obs[4]
                    par = W.fresh(w, path[:g])
                    W.forced.add((bytes(par.chain_code), path[g].to_bytes(4, "big")))
                s = path_str(path)
                try:
                    node = W.wallet(w).by_path(s)
                    err = None
                except Exception as ex:
                    node, err = None, ex
                W.checks += 1
                if ok_model and err is not None:
                    raise Mismatch("purity", "by_path(%r) on %s raised %r" % (s, w, err))
                if not ok_model and err is None:
                    raise Mismatch("purity" if w == "full" else "watch", "by_path(%r) on %s returned a node, model: %s" % (s, w, obs[3]))
                if node is not None:
                    W.same_node(node, w, path, "by_path")
                    # register the shared objects created along the way
                    cur = node
                    p = path
                    while len(p) > 0 and cur is not None:
                        W.objs.setdefault((w, p), cur)
                        cur, p = cur.parent, p[:-1]
            elif a == "AddrReq":
                t, w, path, kind = args[0], args[1], norm_path(args[2]), args[3]
                if not W.has(w, path):
                    continue
                wl = W.wallet(w)
                W.obj(w, path)
                got = getattr(wl, kind + "_address")(W.objs[(w, path)])
                ref = getattr(wl, kind + "_address")(W.fresh(w, path))
                W.checks += 1
                if got != ref:
                    raise Mismatch("purity", "%s address of %s/%s: %r vs stateless %r" % (kind, w, path_str(path), got, ref))
                W.emit(w, got)
                # all five kinds, for the watch-only comparison and the network clause
                for k in KINDS:
                    W.emit(w, getattr(wl, k + "_address")(W.objs[(w, path)]))
                if w == "watch":
                    fullnode = W.fresh("full", W.watch_src + path)
                    for k in KINDS:
                        W.checks += 1
                        if getattr(wl, k + "_address")(W.objs[(w, path)]) != getattr(W.full, k + "_address")(fullnode):
                            raise Mismatch("watch", "%s address below the exported node differs from the full wallet" % k)
            elif a == "ExtKeysReq":
                t, w, path, fl = args[0], args[1], norm_path(args[2]), args[3]
                if not W.has(w, path):
                    continue
                wl = W.wallet(w)
                got = wl.node_extended_keys(W.obj(w, path))
                ref = wl.node_extended_keys(W.fresh(w, path))
                W.checks += 1
                if w == "full" and got != ref:
                    raise Mismatch("purity", "node_extended_keys of %s/%s differ from the stateless recomputation" % (w, path_str(path)))
                if w == "watch":
                    if got["pub"] != ref["pub"]:
                        raise Mismatch("purity", "watch node_extended_keys pub differs from the stateless recomputation")
                    if got["prv"] is not None:
                        raise Mismatch("watch", "watch-only wallet returned an extended private key: %r" % got["prv"])
                    fullnode = W.fresh("full", W.watch_src + path)
                    n = W.objs[(w, path)]
                    if (bytes(n.key), bytes(n.chain_code), n.depth, n.index, bytes(n.parent_fingerprint)) != \
                            (fullnode.public_key.sec(), bytes(fullnode.chain_code), fullnode.depth, fullnode.index,
                             bytes(fullnode.parent_fingerprint)):
                        raise Mismatch("watch", "watch-only node at %s differs from the full wallet's public data" % path_str(path))
                W.emit(w, got["pub"])
                if got["prv"]:
                    W.emit(w, got["prv"])
                ver = int(Version(key_type=Key.PUB.value, bip=FLAVOUR_BIP[fl], testnet=wl.testnet))
                W.emit(w, W.objs[(w, path)].extended_public_key(version=ver))
            elif a == "PrivateReq":
                t, w, path, what = args[0], args[1], norm_path(args[2]), args[3]
                if not W.has(w, path):
                    continue
                wl, node = W.wallet(w), W.obj(w, path)
                try:
                    if what == "wif":
                        got = wl.group([node], wl.p2wpkh_address)[0][3] if w == "watch" else node.private_key.wif(testnet=wl.testnet)
                    elif what == "xprv":
                        got = wl.node_extended_private_key(node)
                    else:
                        # the abstract "bip85" request is concretised to a rotating application / parameter choice
                        b85 = [lambda b, i: b.wif(index=i), lambda b, i: b.bip39_mnemonic(word_count=12, index=i),
                               lambda b, i: b.bip39_mnemonic(word_count=24, index=i), lambda b, i: b.xprv(index=i),
                               lambda b, i: b.hex(num_bytes=16, index=i), lambda b, i: b.pwd(pwd_len=20, index=i),
                               lambda b, i: b.bip39_mnemonic(word_count=18, index=i),
                               # the same applications in Python's other call spellings, with values that coincide
                               # across parameters (what was WRITTEN is equal, what was MEANT is not)
                               lambda b, i: b.hex(num_bytes=32), lambda b, i: b.hex(index=32), lambda b, i: b.hex(20, 40),
                               lambda b, i: b.hex(index=20, num_bytes=40), lambda b, i: b.pwd(pwd_len=21), lambda b, i: b.pwd(index=21),
                               lambda b, i: b.bip39_mnemonic(12, 24), lambda b, i: b.bip39_mnemonic(index=12, word_count=24),
                               lambda b, i: b.wif(i), lambda b, i: b.xprv(i)][(si * 5 + len(path)) % 17]
                        got = b85(wl.bip85, len(path)) if wl.bip85 is not None else None
                    err = None
                except Exception as ex:
                    got, err = None, ex
                W.checks += 1
                if w == "watch":
                    if err is None and got is not None:
                        raise Mismatch("watch", "watch-only wallet answered a %s request with %r" % (what, got))
                else:
                    if err is not None:
                        raise Mismatch("purity", "%s request on the full wallet raised %r" % (what, err))
                    fn = W.fresh(w, path)
                    ref = fn.private_key.wif(testnet=wl.testnet) if what == "wif" else \
                        wl.node_extended_private_key(fn) if what == "xprv" else \
                        b85(PaperWallet.from_extended_key(W.root_xprv).bip85, len(path))
                    if got != ref:
                        raise Mismatch("purity", "%s of %s/%s differs from the stateless recomputation" % (what, w, path_str(path)))
                    if what != "bip85":
                        W.emit(w, got)
            elif a == "GenNew":
                t, g, w, path, kind = args[0], args[1], args[2], norm_path(args[3]), args[4]
                if not W.has(w, path):
                    continue
                wl = W.wallet(w)
                gens[g] = {"gen": wl.address_generator(W.obj(w, path), getattr(wl, kind + "_address")), "w": w,
                           "path": path, "kind": kind, "dead": False}
            elif a == "GenStep":
                t, g, skip = args[0], args[1], args[2]
                if g not in gens or gens[g]["dead"]:
                    continue
                G = gens[g]
                if world is not None:
                    # shared-world (threaded) runs: follow the generator's own cursor
                    at = G.get("cur", -1) + (1 if (skip == 0 or "cur" not in G) else skip)
                    ok_model = True
                else:
                    at = obs[4]
                    ok_model = isinstance(obs[5], list) and len(obs[5]) == 4
                    if not ok_model and obs[5] == "invalid":
                        W.forced.add((bytes(W.objs[(G["w"], G["path"])].chain_code), at.to_bytes(4, "big")))
                try:
                    item = next(G["gen"]) if (skip == 0 or "cur" not in G) else G["gen"].send(skip)
                    err = None
                except Exception as ex:
                    item, err = None, ex
                W.checks += 1
                if ok_model and err is not None:
                    raise Mismatch("purity", "generator step raised %r where the model yields index %d" % (err, at))
                if not ok_model:
                    if err is None:
                        raise Mismatch("purity", "generator yielded %r where the model reports an error" % (item,))
                    G["dead"] = True
                    continue
                G["cur"] = at
                wl = W.wallet(G["w"])
                refnode = W.fresh(G["w"], G["path"] + (at,))
                ref = (str(refnode) if G["w"] == "full" else None, getattr(wl, G["kind"] + "_address")(refnode))
                if item[1] != ref[1] or (ref[0] is not None and item[0] != path_str(G["path"] + (at,))):
                    raise Mismatch("purity", "generator on %s/%s yielded %r, expected index %d -> %r" %
                                   (G["w"], path_str(G["path"]), item, at, ref))
                W.emit(G["w"], item[1])
            elif a == "ImportWatch":
                t, path, fl, strnet = args[0], norm_path(args[1]), args[2], args[3]
                if W.watch is not None:
                    continue
                node = W.obj("full", path)
                ver = int(Version(key_type=Key.PUB.value, bip=FLAVOUR_BIP[fl], testnet=W.test))
                s = node.extended_public_key(version=ver)
                W.emit("full", s)
                wl = PaperWallet.from_extended_key(s)
                W.checks += 1
                if not wl.watch_only or wl.bip85 is not None:
                    raise Mismatch("watch", "wallet imported from %s is not watch-only / offers BIP85" % s[:8])
                if ("test" if wl.testnet else "main") != W.net or bool(wl.master.testnet) != wl.testnet:
                    raise Mismatch("network", "wallet imported from %s has network %s" % (s[:8], "test" if wl.testnet else "main"))
                W.watch, W.watch_src, W.watch_str = wl, path, s
                W.objs[("watch", ())] = wl.master
            elif a == "PaperReq":
                t, acct, rows = args[0], args[1], args[2]
                got = W.full.generate(account=acct, interval=(1, 1 + rows))
                ref = PaperWallet.from_extended_key(W.root_xprv).generate(account=acct, interval=(1, 1 + rows))
                W.checks += 1
                for k in ("BIP44", "BIP49", "BIP84", "BIP85"):
                    if got[k] != ref[k]:
                        raise Mismatch("purity", "generate(account=%d) on the shared wallet: section %s differs from a fresh wallet's" % (acct, k))
                from .acts import wallet_leaves
                for role, s in wallet_leaves(got)[0]:
                    if role in ("addr", "wif", "pub", "prv"):
                        W.emit("full", s)
            elif a == "Scramble":
                w, path = args[0], norm_path(args[1])
                if W.has(w, path):
                    n = W.obj(w, path)
                    # the model rewrites the bookkeeping list arbitrarily; the driver perturbs it THROUGH THE API only
                    # (an implementation is free to keep its children in any container): the children derived so far
                    # are requested again in reversed / original / interleaved order, which duplicates and disorders
                    # whatever record the node keeps of them
                    mode = (si + len(path)) % 3
                    have = [c.index for c in list(getattr(n, "children", []) or []) if hasattr(c, "index")]
                    order = list(reversed(have)) if mode == 0 else have if mode == 1 else have[1::2] + have[::2]
                    for ci in order[:6]:
                        try:
                            n.ckd(ci)
                        except Exception:
                            pass
        W.checks += 1
        if W.full.master.extended_private_key() != W.root_xprv:
            raise Mismatch("purity", "the root key changed during the behaviour")
    return W


def run_threaded(behaviours, seed_hex="5e" * 64, switch=1e-6):
    """Several behaviours at once, one per thread, on ONE shared world (same wallet and node
    objects; each thread has its own generators).  No baton: the interpreter preempts freely."""
    import sys
    net = behaviours[0][0].get("net", "main")
    W = World(net, seed_hex)
    errs = []
    old = sys.getswitchinterval()
    sys.setswitchinterval(switch)

    def work(b):
        try:
            # only steps whose preconditions do not depend on the model state of another thread
            steps = [b[0]] + [s for s in b[1:] if s["action"] in ("CkdCompute", "ByPath", "AddrReq", "ExtKeysReq", "PrivateReq", "GenNew", "GenStep", "Scramble")
                              and not (s["action"] == "CkdCompute" and s.get("pc", {}).get(s["args"][0], ["idle"])[0] != "append")
                              and not (s["action"] == "ByPath" and s["obs"][3] != "ok")
                              and not (s["args"][1:2] == ["watch"] or s["args"][2:3] == ["watch"])]
            run_behaviour(steps, seed_hex, world=W, private_gens={})
        except Mismatch as m:
            errs.append(m)
        except Exception as ex:        # an exception escaping a call the model says succeeds
            errs.append(Mismatch("purity", "unexpected %r in a threaded run" % ex))
    try:
        ths = [threading.Thread(target=work, args=(b,)) for b in behaviours]
        for t in ths:
            t.start()
        for t in ths:
            t.join()
    finally:
        sys.setswitchinterval(old)
    if errs:
        raise errs[0]
    return W


def stress_threads(seconds=8, seed=0, nthreads=12, switch=1e-6):
    """Free-running threads on ONE shared wallet: each thread repeatedly looks nodes up by path,
    derives paths from shared intermediate nodes, bulk-generates children and steps its own address
    generator; every result is compared with a table computed beforehand, single-threaded, on fresh
    objects.  Raises Mismatch on the first difference."""
    import random
    import sys
    import time
    from btc_hd_wallet import PaperWallet
    seed_hex = "5e" * 64
    idxs = [0, 1, HARD]
    ref_w = PaperWallet.from_bip39_seed_hex(seed_hex)
    table = {}

    def ref(path):
        if path not in table:
            n = PaperWallet.from_bip39_seed_hex(seed_hex).master
            for i in path:
                n = n.ckd(i)
            table[path] = (World.fields(n), ref_w.p2wpkh_address(n))
        return table[path]
    paths = [(a,) for a in idxs] + [(a, b) for a in idxs for b in idxs] + [(a, b, c) for a in idxs for b in idxs[:3] for c in idxs[:2]]
    for p in paths:
        ref(p)
    for a in idxs:
        for j in range(12):
            ref((a, j))
    # BIP85 requests (they derive under the shared master): reference values from a fresh wallet
    bip85_reqs = [("wif", (0,)), ("wif", (1,)), ("xprv", (0,)), ("bip39_mnemonic", (12, 0)), ("bip39_mnemonic", (24, 1)),
                  ("hex", (32, 0)), ("hex", (16, 2)), ("pwd", (21, 0)), ("pwd", (30, 1))]
    bref = {}
    for name, args in bip85_reqs:
        bref[(name, args)] = getattr(PaperWallet.from_bip39_seed_hex(seed_hex).bip85, name)(*args)
    # paper-wallet requests of different purposes / accounts (they derive under the shared master)
    pw_reqs = [("bip44", 0), ("bip49", 0), ("bip84", 0), ("bip44", 1), ("bip49", 2), ("bip84", 3)]
    pref = {}
    for name, acct in pw_reqs:
        pref[(name, acct)] = getattr(PaperWallet.from_bip39_seed_hex(seed_hex), name)(account=acct, interval=(0, 2))
    shared = PaperWallet.from_bip39_seed_hex(seed_hex)
    mids = {(a,): shared.master.ckd(a) for a in idxs}
    root_xprv = shared.master.extended_private_key()
    errs = []
    calls = [0]
    stop = time.time() + seconds

    def work(k):
        rng = random.Random("%d/%d" % (seed, k))
        gen = None
        gpos = -1
        gnode = None
        try:
            while time.time() < stop and not errs:
                op = rng.randrange(9)
                if op >= 7:
                    name, acct = rng.choice(pw_reqs)
                    got = getattr(shared, name)(account=acct, interval=(0, 2))
                    if got != pref[(name, acct)]:
                        raise Mismatch("purity", "threads: PaperWallet.%s(account=%d) on the shared wallet is not what a fresh wallet returns" % (name, acct))
                elif op >= 5:
                    name, args = rng.choice(bip85_reqs)
                    got = getattr(shared.bip85, name)(*args)
                    if got != bref[(name, args)]:
                        raise Mismatch("purity", "threads: bip85.%s%r on the shared wallet is not what a fresh wallet returns" % (name, args))
                elif op == 0:
                    p = rng.choice(paths)
                    n = shared.by_path(path_str(p))
                    if World.fields(n) != ref(p)[0]:
                        raise Mismatch("purity", "threads: by_path(%s) returned a node that is not the reference" % path_str(p))
                elif op == 1:
                    a = rng.choice(idxs)
                    tail = rng.choice([q[1:] for q in paths if len(q) > 1 and q[0] == a])
                    n = mids[(a,)].derive_path(list(tail))
                    if World.fields(n) != ref((a,) + tail)[0]:
                        raise Mismatch("purity", "threads: derive_path(%s) from the shared node m/%s is not the reference" % (list(tail), a))
                elif op == 2:
                    a = rng.choice(idxs)
                    st = rng.randrange(0, 8)
                    kids = mids[(a,)].generate_children((st, st + 3))
                    for j, n in enumerate(kids):
                        if World.fields(n) != ref((a, st + j))[0]:
                            raise Mismatch("purity", "threads: generate_children on m/%s returned a wrong child" % a)
                elif op == 3:
                    if gen is None or gpos > 8:
                        a = rng.choice(idxs)
                        gnode, gen, gpos = (a,), shared.address_generator(mids[(a,)]), -1
                    if gpos < 0 or rng.random() < 0.6:
                        item, gpos = next(gen), gpos + 1
                    else:
                        item, gpos = gen.send(2), gpos + 2
                    if item[1] != ref(gnode + (gpos,))[1]:
                        raise Mismatch("purity", "threads: generator on m/%s yielded %r at position %d" % (gnode[0], item, gpos))
                else:
                    a = rng.choice(idxs)
                    c = mids[(a,)].ckd(rng.randrange(12))
                    if World.fields(c) != ref((a, c.index))[0]:
                        raise Mismatch("purity", "threads: ckd on shared node m/%s is not the reference" % a)
                calls[0] += 1
        except Mismatch as m:
            errs.append(m)
        except Exception as ex:
            errs.append(Mismatch("purity", "threads: unexpected %r" % ex))
    # Preemption is INJECTED at line boundaries of the library's stateful shell (bip32.py,
    # base_wallet.py, paper_wallet.py) through the interpreter's trace hook: after a traced line a
    # thread gives up the GIL with some probability, so the windows between "derive", "append to
    # children" and "read children / cursor" are actually hit (free-running threads almost never
    # switch there because a derivation spends its time inside the curve arithmetic).
    targets = ("bip32.py", "base_wallet.py", "paper_wallet.py", "bip85.py")
    yrng = random.Random(seed)

    hot = ("derive_path", "generate_children", "address_generator", "by_path", "group", "entropy", "bip39_mnemonic", "wif",
           "xprv", "hex", "pwd", "bip44", "bip49", "bip84", "generate", "node_extended_keys", "determine_node_version_int")

    def local(frame, event, arg):
        if event == "line" and (frame.f_code.co_name in hot or yrng.random() < 0.25):
            time.sleep(0.00002)
        return local

    # module-level helpers every derivation goes through (a shared cache or scratch variable there is shared by
    # ALL wallets of the process): every line of these short functions is a preemption point
    shared_helpers = ("hmac_sha512", "hash160", "hash256", "sha256", "big_endian_to_int", "int_to_big_endian")

    def local_all(frame, event, arg):
        if event == "line":
            time.sleep(0.00002)
        return local_all

    def tracer(frame, event, arg):
        if event != "call" or "btc_hd_wallet" not in frame.f_code.co_filename:
            return None
        fn = frame.f_code.co_filename
        if fn.endswith(targets) or fn.endswith("keys.py"):
            return local
        if fn.endswith("helper.py") and frame.f_code.co_name in shared_helpers:
            return local_all
        return None
    old = sys.getswitchinterval()
    sys.setswitchinterval(switch)
    threading.settrace(tracer)
    try:
        ths = [threading.Thread(target=work, args=(k,)) for k in range(nthreads)]
        for t in ths:
            t.start()
        for t in ths:
            t.join()
    finally:
        threading.settrace(None)
        sys.setswitchinterval(old)
    if errs:
        raise errs[0]
    if shared.master.extended_private_key() != root_xprv:
        raise Mismatch("purity", "threads: the root key changed")
    return {"threads": nthreads, "calls": calls[0], "seconds": seconds}


# ------------------------------------------------------------------ cold start under threads
_COLD_SCRIPT = r'''
import json, sys, threading, time, random
sys.setswitchinterval(float(sys.argv[3]))
spec = json.load(open(sys.argv[1]))
nthreads = int(sys.argv[2])
yrng = random.Random(int(sys.argv[4]))
import os
barrier = threading.Barrier(nthreads)
out = [None] * nthreads


def local(frame, event, arg):
    if event == "line" and yrng.random() < 0.5:
        time.sleep(0.00002)
    return local


def tracer(frame, event, arg):
    if event == "call" and "btc_hd_wallet" in frame.f_code.co_filename and not frame.f_code.co_filename.endswith(("ripemd.py", "bech32.py", "bip39_wordlist.py")):
        return local
    return None


def work(k):
    res = []
    barrier.wait()
    # the FIRST use of the library in this process happens here, in all threads at once
    from btc_hd_wallet import PaperWallet
    reqs = spec["requests"][k::nthreads] + spec["requests"][:3]
    for r in reqs:
        try:
            if r["kind"] == "import":
                w = PaperWallet.from_extended_key(r["key"])
                n = w.master
                item = {"net": bool(w.testnet), "watch": bool(w.watch_only), "xpub": n.extended_public_key(),
                        "p2wpkh": w.p2wpkh_address(n), "p2pkh": w.p2pkh_address(n), "p2sh": w.p2sh_p2wpkh_address(n),
                        "keys": w.node_extended_keys(n)}
                if not w.watch_only:
                    item["wif"] = n.private_key.wif(testnet=w.testnet)
                    item["rows"] = w.bip84(account=0, interval=(0, 1))
            elif r["kind"] == "seed":
                w = PaperWallet.from_bip39_seed_hex(r["seed"], testnet=r["testnet"])
                item = {"gen": w.generate(account=r["account"], interval=(0, 2)), "wasabi": w.wasabi_json() if not r["testnet"] else None}
            else:
                w = PaperWallet.from_mnemonic(r["mnemonic"], r["password"], testnet=r["testnet"])
                item = {"xprv": w.master.extended_private_key(), "bip85": w.bip85.bip39_mnemonic(12, 0), "path": w.node_extended_keys(w.by_path(r["path"]))}
            res.append([r["id"], json.loads(json.dumps(item))])
        except Exception as ex:
            res.append([r["id"], {"raised": type(ex).__name__}])
    out[k] = res


threading.settrace(tracer)
ths = [threading.Thread(target=work, args=(k,)) for k in range(nthreads)]
for t in ths:
    t.start()
for t in ths:
    t.join()
json.dump(out, sys.stdout)
'''


def cold_start_requests():
    """the request mix of the cold-start test"""
    from . import refprims as R, refwallet as W
    reqs = []
    tab = R.Table()
    rm = W.master(tab, bytes.fromhex("5e" * 64), "main")
    for t, ver in sorted(W.VERSIONS.items()):
        node = rm if t[0] == "prv" else W.neuter(rm)
        node.net = t[1]
        reqs.append({"id": "import-%s-%s-%s" % t, "kind": "import", "key": W.ser(tab, node, ver, t[0] == "prv")})
    for testnet in (False, True):
        for acct in (0, 5):
            reqs.append({"id": "seed-%s-%d" % (testnet, acct), "kind": "seed", "seed": "5e" * 64, "testnet": testnet, "account": acct})
        reqs.append({"id": "mn-%s" % testnet, "kind": "mnemonic", "testnet": testnet, "password": "päss",
                     "mnemonic": "legal winner thank year wave sausage worth useful legal winner thank yellow", "path": "m/49'/1'/0'/0/3"})
    return reqs


def cold_start_threads(nproc=6, nthreads=8, seed=0):
    """Fresh interpreter processes whose FIRST use of the library is made by several threads released together
    (with injected preemption): one-time initialisation (lazily built tables, import-time caches) must not leak a
    half-built state into any answer.  Every answer is compared with the one computed in this process, sequentially.
    Raises Mismatch."""
    import subprocess
    import tempfile
    from .core import REPO
    reqs = cold_start_requests()
    # sequential reference: the same script, one thread, no preemption
    d = tempfile.mkdtemp(prefix="cold.", dir="/dev/shm" if os.path.isdir("/dev/shm") else None)
    try:
        with open(os.path.join(d, "spec.json"), "w") as f:
            json.dump({"requests": reqs}, f)
        with open(os.path.join(d, "cold.py"), "w") as f:
            f.write(_COLD_SCRIPT)
        env = dict(os.environ, PYTHONPATH=REPO, PYTHONDONTWRITEBYTECODE="1")

        def run(nt, switch, sd):
            p = subprocess.run(["/venv/bin/python", os.path.join(d, "cold.py"), os.path.join(d, "spec.json"), str(nt), str(switch), str(sd)],
                               env=env, stdout=subprocess.PIPE, stderr=subprocess.PIPE, timeout=900)
            if p.returncode != 0:
                raise RuntimeError("cold-start driver failed: " + p.stderr.decode("utf-8", "replace")[-500:])
            res = {}
            for th in json.loads(p.stdout.decode("utf-8")):
                for rid, item in th:
                    res.setdefault(rid, []).append(item)
            return res
        ref = {rid: items[0] for rid, items in run(1, 0.005, 0).items()}
        checks = 0
        for k in range(nproc):
            got = run(nthreads if k % 2 == 0 else 3, [1e-6, 1e-5, 0.005][k % 3], seed * 1000 + k)
            for rid, items in got.items():
                for item in items:
                    checks += 1
                    if item != ref[rid]:
                        fam = "network" if (isinstance(item, dict) and isinstance(ref[rid], dict) and item.get("net") != ref[rid].get("net")) else "purity"
                        keys = [x for x in ref[rid] if not isinstance(item, dict) or item.get(x) != ref[rid].get(x)] if isinstance(ref[rid], dict) else []
                        raise Mismatch(fam, "cold start: request %s answered differently when the library's first use is made by %d threads "
                                            "at once (fields %s)" % (rid, nthreads if k % 2 == 0 else 3, keys[:4]))
        return checks
    finally:
        import shutil
        shutil.rmtree(d, ignore_errors=True)


def bip85_spellings(seed_hex="5e" * 64):
    """One BIP85 object answers a fixed list of requests written in Python's equivalent call spellings, with values that
    coincide across parameters (hex(num_bytes=32) / hex(index=32), ...), in two orders; every answer is compared with the
    answer of a fresh wallet asked only that.  Raises Mismatch."""
    from btc_hd_wallet import PaperWallet
    calls = [("hex(num_bytes=32)", lambda b: b.hex(num_bytes=32)), ("hex(index=32)", lambda b: b.hex(index=32)),
             ("hex(20, 40)", lambda b: b.hex(20, 40)), ("hex(index=20, num_bytes=40)", lambda b: b.hex(index=20, num_bytes=40)),
             ("hex(40, 20)", lambda b: b.hex(40, 20)), ("pwd(pwd_len=21)", lambda b: b.pwd(pwd_len=21)), ("pwd(index=21)", lambda b: b.pwd(index=21)),
             ("pwd(30, 40)", lambda b: b.pwd(30, 40)), ("pwd(index=30, pwd_len=40)", lambda b: b.pwd(index=30, pwd_len=40)),
             ("bip39_mnemonic(12, 24)", lambda b: b.bip39_mnemonic(12, 24)),
             ("bip39_mnemonic(index=12, word_count=24)", lambda b: b.bip39_mnemonic(index=12, word_count=24)),
             ("bip39_mnemonic(word_count=24)", lambda b: b.bip39_mnemonic(word_count=24)), ("bip39_mnemonic(index=24)", lambda b: b.bip39_mnemonic(index=24)),
             ("wif(1)", lambda b: b.wif(1)), ("wif(index=1)", lambda b: b.wif(index=1)), ("xprv()", lambda b: b.xprv()), ("xprv(0)", lambda b: b.xprv(0)),
             ("wif()", lambda b: b.wif()), ("hex()", lambda b: b.hex()), ("pwd()", lambda b: b.pwd())]
    ref = {}
    for name, f in calls:
        ref[name] = f(PaperWallet.from_bip39_seed_hex(seed_hex).bip85)
    n = 0
    for order in (calls, list(reversed(calls)), calls[1::2] + calls[::2]):
        shared = PaperWallet.from_bip39_seed_hex(seed_hex).bip85
        for name, f in order + order:
            try:
                got = f(shared)
            except Exception as ex:
                raise Mismatch("purity", "bip85.%s on an object that answered other requests before raised %r" % (name, ex))
            n += 1
            if got != ref[name]:
                raise Mismatch("purity", "bip85.%s on an object that answered other requests before differs from a fresh wallet's answer" % name)
    return n


def long_scan(nchildren=2600, nbip85=1100, seed_hex="5e" * 64):
    """Capacity: a caller holds a few early children of one node and early BIP85 answers, then makes far more
    requests on the same objects than any small cache or bookkeeping bound (thousands of further children through the
    address generator and bulk generation, over a thousand distinct BIP85 paths), and asks about the early ones again.
    Everything must be as it was and as a fresh wallet says.  Raises Mismatch."""
    from btc_hd_wallet import PaperWallet
    w = PaperWallet.from_bip39_seed_hex(seed_hex)
    chain = w.by_path("m/84'/0'/0'/0")
    held = [chain.ckd(i) for i in (0, 1, 7)]

    def view(n):
        return (World.fields(n), str(n), n.extended_public_key(), w.node_extended_keys(n), w.p2wpkh_address(n))
    before = [view(n) for n in held]
    gen = w.address_generator(node=chain)
    k = 0
    for _ in range(nchildren // 2):
        next(gen)
        k += 1
    for c in chain.generate_children((10, 10 + nchildren - nchildren // 2)):
        k += 1
    for n, b in zip(held, before):
        if view(n) != b:
            raise Mismatch("purity", "a held child of m/84'/0'/0'/0 answers differently after %d further children were derived from its parent" % k)
    fresh = PaperWallet.from_bip39_seed_hex(seed_hex)
    for n, i in zip(held, (0, 1, 7)):
        f = fresh.by_path("m/84'/0'/0'/0/%d" % i)
        if (World.fields(f), str(f), fresh.node_extended_keys(f)) != (World.fields(n), str(n), w.node_extended_keys(n)):
            raise Mismatch("purity", "a held child differs from a fresh wallet's after %d further children" % k)
    # BIP85: early answers, then more than a thousand distinct paths, then the early ones again
    b = w.bip85
    early = [("hex", (16, 0)), ("wif", (0,)), ("pwd", (20, 1)), ("bip39_mnemonic", (12, 0)), ("xprv", (2,))]
    first = [getattr(b, m)(*a) for m, a in early]
    n85 = 0
    for i in range(nbip85):
        m, a = [("hex", (16 + i % 49, i)), ("wif", (i + 3,)), ("pwd", (20 + i % 67, i + 2))][i % 3]
        getattr(b, m)(*a)
        n85 += 1
    again = [getattr(b, m)(*a) for m, a in early]
    if again != first:
        raise Mismatch("purity", "early BIP85 answers changed after %d other requests on the same object" % n85)
    fb = PaperWallet.from_bip39_seed_hex(seed_hex).bip85
    if [getattr(fb, m)(*a) for m, a in early] != first:
        raise Mismatch("purity", "BIP85 answers differ from a fresh wallet's")
    return k + n85


def generator_jumps(seed=0, seed_hex="5e" * 64):
    """Address generators driven with sent skips: short ones, random ones and jumps that land just below, on and above
    2^31 (where a private node's children become hardened ones).  Every yielded (path label, address) pair is compared
    with what a FRESH wallet says about that child derived step by step, and the label must read back (the library's
    own path reader) as the parent's path followed by the index that was reached.  Watch-only generators are driven
    below 2^31 only.  Raises Mismatch; returns the number of pairs compared."""
    import random
    from btc_hd_wallet import PaperWallet
    from btc_hd_wallet.wallet_utils import Bip32Path
    rng = random.Random(seed)
    Hd = 2 ** 31
    kinds = ("p2wpkh", "p2pkh", "p2sh_p2wpkh", "p2wsh", "p2sh_p2wsh")
    n = 0
    for test in (False, True):
        coin = 1 if test else 0
        parents = ["m", "m/0", "m/84'/%d'/1'/0" % coin, "m/44'/%d'/0'" % coin, "m/49'/%d'/2'/1" % coin]
        for j, ppath in enumerate(parents):
            plans = [[0, 5, Hd - 8, 0, 0, 0, 0, 0, 2], [0, Hd, 0, 3, Hd - 6, 0], [0] + [rng.choice([0, 1, 2, 7, rng.randrange(1, 2 ** 20)]) for _ in range(5)]]
            for pi, plan in enumerate(plans):
                w = PaperWallet.from_bip39_seed_hex(seed_hex, testnet=test)
                fresh = PaperWallet.from_bip39_seed_hex(seed_hex, testnet=test)
                kind = kinds[(j + pi + coin) % 5]
                node, fparent = w.by_path(ppath), fresh.by_path(ppath)
                plist = Bip32Path.parse(ppath).to_list()
                gen = w.address_generator(node, getattr(w, kind + "_address")) if (j + pi) % 3 else \
                    (w.address_generator(node) if kind == "p2wpkh" else w.address_generator(node=node, addr_fnc=getattr(w, kind + "_address")))
                at = None
                for skip in plan:
                    at = 0 if at is None else at + (skip or 1)
                    try:
                        item = next(gen) if (skip == 0 or at == 0) else gen.send(skip)
                    except Exception as ex:
                        if raised_in_library(ex):
                            raise Mismatch("purity", "address generator on %s (%s) raised %r on the way to index %d" % (ppath, kind, ex, at))
                        raise
                    fchild = fparent.ckd(at)
                    ref = (str(fchild), getattr(fresh, kind + "_address")(fchild))
                    n += 1
                    what = "address generator on %s %s (%s) at index %d yielded %r" % ("test" if test else "main", ppath, kind, at, tuple(item))
                    if tuple(item) != ref:
                        raise Mismatch("purity", "%s, a fresh wallet says %r" % (what, ref))
                    try:
                        back = Bip32Path.parse(item[0]).to_list()
                    except Exception as ex:
                        raise Mismatch("purity", "%s: the label does not read back as a path (%r)" % (what, ex))
                    if back != plist + [at]:
                        raise Mismatch("purity", "%s: the label reads back as %r, the child reached is %r" % (what, back, plist + [at]))
        # watch-only: the account's extended public key, imported; skips stay below 2^31
        w = PaperWallet.from_bip39_seed_hex(seed_hex, testnet=test)
        acct = w.by_path("m/84'/%d'/0'" % coin)
        xpub = w.node_extended_public_key(acct)
        wo, wo2 = PaperWallet.from_extended_key(xpub), PaperWallet.from_extended_key(xpub)
        chain, chain2 = wo.master.ckd(0), wo2.master.ckd(0)
        gen, at = wo.address_generator(chain), None
        for skip in (0, 4, 2 ** 20, 0, Hd - 2 ** 20 - 8, 0):
            at = 0 if at is None else at + (skip or 1)
            item = next(gen) if (skip == 0 or at == 0) else gen.send(skip)
            fchild = chain2.ckd(at)
            n += 1
            if tuple(item) != (str(fchild), wo2.p2wpkh_address(fchild)) or item[1] != w.p2wpkh_address(w.by_path("m/84'/%d'/0'/0" % coin).ckd(at)):
                raise Mismatch("purity", "watch-only address generator at index %d yielded %r, a fresh import says %r" % (at, tuple(item), (str(fchild), wo2.p2wpkh_address(fchild))))
    return n


def held_arguments(seed=0, seed_hex="5e" * 64):
    """An application keeps the ARGUMENT objects it passes (path lists, interval lists) and passes the same object
    again later, to the same node and to others.  The answer to the request the caller wrote (the same
    object, passed again) must be the first answer and what a fresh wallet derives step by step for that path - which
    it cannot be if an earlier call used the object up.  Raises Mismatch."""
    import copy
    import random
    from btc_hd_wallet import PaperWallet
    rng = random.Random(seed)
    Hd = 2 ** 31
    n = 0
    for test in (False, True):
        w = PaperWallet.from_bip39_seed_hex(seed_hex, testnet=test)
        pool = [[44 + Hd, Hd, Hd, 0, 5], [0], [], [1, 2, 3], [Hd + 7, 9], [84 + Hd, 1 + Hd, Hd]]
        pool += [[rng.randrange(2 ** 32 if rng.random() < .5 else Hd) for _ in range(rng.randrange(1, 5))] for _ in range(3)]
        saved = copy.deepcopy(pool)
        nodes = [w.master, w.master.ckd(3)]
        ref = {}
        for rnd in range(3):
            order = list(range(len(pool)))
            rng.shuffle(order)
            for j in order:
                for ni, node in enumerate(nodes):
                    try:
                        got = node.derive_path(pool[j]) if (rnd + j) % 2 else node.derive_path(index_list=pool[j])
                    except Exception as ex:
                        raise Mismatch("purity", "derive_path(%r) (request no. %d with this list object) raised %r" % (saved[j], rnd + 1, ex))
                    if (j, ni) not in ref:
                        f = PaperWallet.from_bip39_seed_hex(seed_hex, testnet=test).master
                        f = f if ni == 0 else f.ckd(3)
                        for i in saved[j]:
                            f = f.ckd(i)
                        ref[(j, ni)] = (World.fields(f), str(f))
                    n += 1
                    if (World.fields(got), str(got)) != ref[(j, ni)]:
                        raise Mismatch("purity", "derive_path(%r), request no. %d with the same list object, gave %s; a fresh wallet derives %s%s"
                                       % (saved[j], rnd + 1 + (ni > 0), str(got), ref[(j, ni)][1],
                                          " (the list the caller passed was changed by an earlier call: it now reads %r)" % (pool[j],) if pool[j] != saved[j] else ""))
        # interval objects of bulk generation
        chain = w.by_path("m/84'/%d'/0'/0" % (1 if test else 0))
        for iv in ([2, 5], [0, 1], [Hd - 1, Hd + 1], [4, 4]):
            keep = list(iv)
            first = None
            for rnd in range(3):
                kids = [World.fields(c) for c in (chain.generate_children(iv) if rnd % 2 else chain.generate_children(interval=iv))]
                n += 1
                if first is None:
                    first = kids
                    fchain = PaperWallet.from_bip39_seed_hex(seed_hex, testnet=test).by_path("m/84'/%d'/0'/0" % (1 if test else 0))
                    if kids != [World.fields(fchain.ckd(i)) for i in range(*keep)]:
                        raise Mismatch("purity", "generate_children(%r) differs from single steps on a fresh wallet" % (keep,))
                elif kids != first:
                    raise Mismatch("purity", "generate_children(%r) with the same interval object answered differently the %d. time" % (keep, rnd + 1))
    return n
