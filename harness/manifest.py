"""Generates /verif/MANIFEST.json from the table below (python -m harness.manifest)."""
import json
import os

VERIF = os.path.dirname(os.path.dirname(os.path.abspath(__file__)))

BASE_CMD = ("cd /repo && /venv/bin/python -m pytest -ra -q -p no:cacheprovider --timeout=900 "
            "--continue-on-collection-errors")

# property -> (technique, level text, level note, design ref)
CLAIMED = {
    "C10": ("TLA+ Base58 spec: TLC exhaustive small scope on the real alphabet + TLC trace validation of "
            "recorded encode/decode calls",
            "Base58.tla defines Enc/Dec/DecCheck over byte sequences. TLC proves round-trip, leading-zero and "
            "accept-iff-checksum invariants for every byte string of length 1..2 and every alphabet string of "
            "length 1..3 (bounded exhaustive), and validates every recorded call of the real functions "
            "(exhaustive small scope, lengths 1..128 x leading zeros, and mutation families of valid "
            "Base58Check strings) against the same operators at real scale.",
            "Hash256 is an oracle table (hashlib); TLC, the TLA+ modules and the projection code are trusted; "
            "inputs beyond the generated families are not covered.",
            "DESIGN.md section 5 C10"),
    "C19": ("TLA+ Wire spec (byte-at-a-time parser automaton, push-header and varint rules): TLC exhaustive on "
            "small tapes/all lengths + TLC trace validation of recorded serialize/parse/varint calls",
            "Wire.tla specifies the script parser as an explicit step automaton, the push-header thresholds and the "
            "varint codec. TLC explores the automaton on every tape of <=4 bytes over a 13-byte alphabet (every "
            "prefix is a state), all element lengths 0..521 incl. every strict prefix of the serialisation, and "
            "varint boundaries; the same transition function then validates recorded calls of the real "
            "Script.serialize/parse and encode_varint/read_varint (all lengths 0..521, all opcodes, all prefixes, "
            "corrupted heads, random multi-element scripts).",
            "Element contents are arbitrary bytes and do not influence control flow; zero-length elements are outside "
            "the statement; TLC, Wire.tla and the projection code are trusted.",
            "DESIGN.md section 5 C19"),
    "C11": ("TLA+ Bech32 spec at real scale: TLC checks the version x length rule grid, decides <=4-error detection "
            "by syndrome-state counting on the spec's polymod, and validates recorded encode/decode calls",
            "Bech32.tla specifies polymod, checksum constants, string and segwit-address rules as named conjuncts. "
            "TLC (i) checks round trip / no-address / constant / padding / case / prefix rules on the whole grid "
            "version 0..17 x length 0..42, (ii) decides error detection completely for weight <=4 (same constant) "
            "and weight <=3 (cross constant) at the address lengths the library emits by counting distinct syndrome "
            "states (linearity), (iii) validates each recorded bech32.encode/decode call, including all single "
            "substitutions and sampled 2/3/4-substitutions of valid addresses and crafted valid-checksum rule "
            "violations, against the same operators.",
            "The link from the syndrome argument to the implementation is the trace validation of polymod-dependent "
            "results (every encode compares the full string); HRP/separator errors are covered by sampling only.",
            "DESIGN.md section 5 C11"),
    "C17": ("TLA+ PathGrammar spec: TLC growing-path state machine over real-scale numerals + TLC trace validation of "
            "recorded Bip32Path.parse / by_path calls (by_path compared with iterated ckd)",
            "PathGrammar.tla defines the path grammar character by character with decimal-string range checks (no 32-bit "
            "overflow). TLC explores a machine that grows a path one component per step: every list of length 0..5 over "
            "{0,1,2^31-1,2^31,2^32-1} x 3 spellings x 2 roots, one faulty component at every position, bad roots, 6..9 "
            "levels; invariants: parse matches the token table, round trip, marker equivalence, fault rejected, deep "
            "honoured-or-rejected. The same Parse operator judges every recorded parse/by_path call (the enumerated "
            "grammar, random 32-bit lists, random faulty numerals); by_path nodes are compared with the fold of "
            "single-step derivations.",
            "Spellings on which the statement is silent are not judged; by_path's reference is the implementation's own "
            "ckd (covered by C01). One known finding (D-C17b, Bip32Path.parse drops components after the fifth) is "
            "pinned by the repository's own test and is listed in known_findings.json.",
            "DESIGN.md section 5 C17"),
    "C01": ("parametric TLA+ Bip32 spec: TLC toy-scale model with TLC-chosen PRF (all parents x all IL) + TLC trace "
            "validation at real scale with oracle tables and chosen-PRF corner cases",
            "Bip32.tla defines CKDpriv/master/path folding over byte-sequence scalars with the primitives as operator "
            "constants. MC_Bip32 instantiates it with 1-byte scalars, order 13 and a toy group and lets TLC choose every "
            "PRF answer: ChildInRange, layout, depth/index/fingerprint hold for every (parent, IL, index). Trace_Keys "
            "instantiates the SAME operators with 32-byte scalars and the secp256k1 order and re-derives key, chain code, "
            "metadata and both Base58Check strings of every recorded ckd/derive_path/master_key call, including "
            "substituted-HMAC cases (IL + k = n-1, n+1, wrap-around, leading-zero children) and the observed PRF query.",
            "SHA-512/HMAC, RIPEMD160/SHA256 and k*G are oracle tables from hashlib and the harness's own secp256k1; the "
            "bounded model is a different (small) instance of the same operator text.",
            "DESIGN.md section 5 C01"),
    "C02": ("parametric TLA+ Bip32 spec: Agree/RefuseHardened invariants in the toy group (TLC exhaustive) + TLC trace "
            "validation of private-vs-public derivations at real scale",
            "MC_Bip32 proves, in a group of order 13 with TLC-chosen PRF, that public-only derivation equals private "
            "derivation with the private part dropped (incl. agreement of the invalid outcome), that hardened public "
            "derivation is refused and that no public node carries a scalar. Trace_Keys validates recorded private and "
            "public walks along the same normal paths (public twin parsed from the xpub string, roots at depth 0..255, "
            "scalars near n and with leading zeros), single public steps and refusal attempts for hardened indexes.",
            "The homomorphism identity at real scale is checked per observed step against independently computed point "
            "sums, not proved.",
            "DESIGN.md section 5 C02"),
    "C18": ("TLA+ Bip32 spec Invalid outcomes: TLC toy-scale model where invalid PRF answers are the common case + TLC "
            "trace validation of chosen-PRF fault injection on the real code",
            "In MC_Bip32 243 of 256 left halves are >= N and every parent has an IL with zero child / infinity, so "
            "NoInvalidNode, InvalidIsError, ValidSucceeds and FailedAttemptLeavesParent are checked on every such "
            "transition. On the real code the HMAC is substituted at hmac.new/hmac.digest with IL in {n, n+1, 2^256-1, "
            "n - k_par} (private, public, master) and with valid-but-extreme values; Trace_Keys demands an exception for "
            "the invalid classes, success for the extreme-valid ones, and, in sequences on shared objects, that a failed "
            "attempt leaves parent and siblings unchanged.",
            "The BIP85 wif/xprv validity branch is covered by C12's chosen-PRF events; IL = 0 on the public side is not judged.",
            "DESIGN.md section 5 C18"),
    "C07": ("TLA+ ExtKey spec (SLIP-132 table, 78-byte layout): TLC exhaustive over 12 versions x field corners, "
            "111-character theorem by monotonicity, + TLC trace validation of serialise/parse/import calls",
            "ExtKey.tla holds the version table and the payload layout. MC_ExtKey checks, for all 12 versions and near-miss "
            "constants x depth/index/fingerprint/chain-code corners, round trip, identical re-serialisation, bijectivity of "
            "the table, rejection of unknown versions, master-zero fields and absence of the scalar from public payloads; "
            "TLC also evaluates at real scale that the smallest and largest 82-byte strings of every version have 111 "
            "characters and the same 4-character prefix. Trace_Keys re-derives every recorded extended_*_key(version), "
            "Prv/PubKeyNode.parse (str/bytes/stream) and BaseWallet.from_extended_key result, decoding emitted strings "
            "with the spec's own Base58Check.",
            "Hash256 and curve membership are oracle tables; payloads that are not valid BIP32 keys are not judged.",
            "DESIGN.md section 5 C07"),
    "C09": ("TLA+ KeyCodec spec: TLC toy-scale accept-iff-valid + WIF payload round trip, first-character theorem at "
            "real scale, + TLC trace validation of key constructors, wif/from_wif, sec/parse",
            "MC_KeyCodec enumerates every byte string of length 0..2 as constructor input at toy scale and proves at real "
            "scale (TLC-evaluated assumptions) that the four WIF flavours have first characters {K,L}, {c}, {5}, {9}, which "
            "is what from_wif's compressed-flag detection relies on. Trace_Keys validates recorded PrivateKey "
            "constructions (bytes/int/from_int/parse; 0, n, n+1, 2^256-1, 2^256, lengths 0..40), WIF strings and their "
            "decoding, SEC encodings of k*G against the harness curve, and PublicKey.parse on valid, off-curve, no-sqrt, "
            "x>=p, wrong-prefix and wrong-length candidates.",
            "k*G and curve membership come from the harness's own secp256k1; hybrid and raw 64-byte encodings are not judged.",
            "DESIGN.md section 5 C09"),
    "C05": ("TLA+ Address spec (script templates + Base58Check/Bech32 composition, Classify decoder) with abstract "
            "hashes in TLC, RIPEMD-160 padding/chaining shell spec, + TLC trace validation of address/script/hash calls",
            "Address.tla composes the five address kinds from hash operators, templates and the Base58/Bech32 specs; "
            "MC_Address shows with abstract hashes that each kind x network decodes (by the spec's own decoders) to the "
            "expected class, network and payload. Trace_Keys encodes every requested address itself and also decodes the "
            "string the library emitted; script builders are compared with the templates; hash160/ripemd160 are compared "
            "with OpenSSL on every length 0..1024 and the observed compress() calls are checked against Ripemd.tla's "
            "Merkle-Damgard shell (padding, block split, chaining, output encoding).",
            "Digest values are oracle tables (OpenSSL); the RIPEMD compression function itself is uninterpreted.",
            "DESIGN.md section 5 C05"),
    "C03": ("TLA+ Bip39/Bip32 specs: abstract constructor model (every idempotent normalisation map, TLC) + TLC trace "
            "validation of seeds and the five constructors with UTF-8 done by the spec and NFKD/PBKDF2/HMAC as oracle tables",
            "MC_Seed explores two wallet slots filled by arbitrary constructor routes over an abstract text alphabet for every "
            "idempotent normalisation map: equal normal forms give equal master keys, different ones different keys, the "
            "xprv route reproduces the key, the network flag is not in the support. Trace_Keys recomputes "
            "bip39_seed_from_mnemonic (spec-side UTF-8, salt 'mnemonic'||passphrase, 2048 rounds, 64 bytes as the lookup key of "
            "the PBKDF2 table) for a Unicode corpus, and master key/chain code/xprv for from_mnemonic, from_entropy_hex, "
            "from_bip39_seed_hex/bytes on both networks; the extended-key route is validated through Import events.",
            "NFKD is taken from unicodedata; PBKDF2 values from the harness's explicit loop over its own HMAC.",
            "DESIGN.md section 5 C03"),
    "C04": ("TLA+ Bip39 spec: TLC exhaustive on a scaled instance (every 8/16-bit entropy x checksum patterns) + TLC trace "
            "validation of mnemonic_from_entropy at real scale incl. the rejection clause and the pinned word list",
            "MC_Bip39 enumerates every entropy value of a scaled instance (5-bit words) and checks round trip, word count, "
            "checksum = leading hash bits, losslessness and rejection of other sizes. Trace_Keys applies the same operators "
            "with 11-bit words to recorded calls: all five sizes with zero/one/single-bit/leading-zero/random patterns, every "
            "other length 0..64, malformed and blank-containing hex; the embedded list is checked in TLA+ (2048 entries, "
            "strict order, unique 4-letter prefixes, SHA-256 equal to the published english.txt digest).",
            "SHA-256 is an oracle table; hex with blanks may be refused or honoured for the blank-stripped bytes.",
            "DESIGN.md section 5 C04"),
    "C12": ("TLA+ Bip85 spec: TLC exhaustive over the parameter space at real scale (domains, hardened levels, path "
            "injectivity, slice widths, Base64) + TLC trace validation of all five applications with oracle tables",
            "MC_Bip85 enumerates every word count 0..30, byte count 0..80, password length 0..100 and index classes around 0 "
            "and 2^31: accepted iff in domain, all path levels hardened, widths, and (as a TLC-evaluated assumption) "
            "injectivity of the path on all 369 legal (app, parameter, index) triples. Trace_Keys recomputes each recorded "
            "application result - hardened derivation by Bip32.tla, HMAC keyed 'bip-entropy-from-k', truncation/split, "
            "Bip39 sentence, WIF/xprv Base58Check, hex, Base64 - exhaustively over the allowed parameters, with out-of-range "
            "parameters and indexes (negative, >= 2^31) required to raise, and with substituted entropy for the key-validity branch.",
            "Primitive values are oracle tables; masters are sampled (reference-vector-like and random).",
            "DESIGN.md section 5 C12"),
    "C13": ("TLA+ HDWallet system model (threads, children lists, generators, watch-only import, scramble): TLC exhaustive "
            "to a call bound, negative-test deviations, TLC-simulated behaviours replayed on shared real objects incl. threads",
            "HDWallet.tla keeps as state exactly what a regression could wrongly consult (children lists, generator cursors, "
            "in-flight derivations split at the append) while results are the stateless reference F(root, path) of Bip32.tla "
            "at toy scale. TLC checks Pure, ConcatIsSequence, GeneratorConsecutive, RootUnchanged, ObjectsAreReference over "
            "all interleavings of two threads up to the call bound, and that a built-in wrong design (memoising by the "
            "children list) violates Pure. Simulated behaviours (16 steps) are then stepped through SHARED real wallet/node/"
            "generator objects - sequentially and four at a time on free-running threads - and every result is compared with "
            "the model's outcome kind and with a stateless recomputation from the serialised root; invalid derivations of "
            "the toy PRF are realised by substituting the HMAC answer for exactly that query.",
            "Interleavings inside one call are stress-sampled only; the stateless reference is the implementation itself.",
            "DESIGN.md section 5 C13"),
    "C14": ("TLA+ HDWallet model invariants WatchAgrees/NoPrivateEver/HardenedRefused (TLC) + behaviour replay with a "
            "watch-only import + TLC trace validation of watch-only wallets at real scale (Bip32/Address/ExtKey specs)",
            "In HDWallet.tla the watch-only wallet is re-rooted at the neutered export node; TLC checks over all histories "
            "that its nodes equal the full wallet's public data, that private-data requests yield error/none and that no "
            "hardened component exists below it. Behaviours containing an import are replayed on real objects. Trace_Keys "
            "validates recorded watch-only wallets built from each of the six public versions of nodes at depth 0..7: "
            "network/key type from the version, node fields and all five addresses recomputed by the specification from the "
            "FULL wallet's root, and ten private-data probes that must raise or return None.",
            "Primitive values are oracle tables.",
            "DESIGN.md section 5 C14"),
    "C16": ("TLA+ HDWallet model invariants NoMix/ImportNet with a network-default deviation as negative test (TLC) + TLC "
            "trace validation classifying every emitted string leaf by decoding it",
            "HDWallet.tla tags every output with the wallet's network and copies the flag parent->child explicitly; TLC "
            "checks NoMix/ImportNet over all histories and that a child taking the class default violates it. Trace_Keys "
            "decodes every string leaf of generate(), node keys, the five address kinds, WIFs, the Wasabi export, "
            "generators and wallets re-imported from each of the 12 prefixes with the specification's own Base58Check / "
            "Bech32 / version-table operators and requires the wallet's network; generated paths must carry its coin type.",
            "The BIP85 block is exempt by design rule (network-free outputs).",
            "DESIGN.md section 5 C16"),
    "C06": ("TLA+ PaperWallet record-tree model (toy scale, TLC) + TLC trace validation re-deriving every leaf of "
            "generate()/wasabi_json()/bip85_data() from the source secret with the Bip32/Bip39/Address/ExtKey/KeyCodec specs",
            "PaperWallet.tla builds the record tree of generate(account, interval) over the toy key tree and TLC checks "
            "OneRowPerIndexInOrder, RowIsOneKey, PurposeCoinVersionAligned for networks x accounts x intervals (empty, "
            "single-row, start>end) x masters (non-vacuity: the number of derivable combinations is asserted). Trace_Keys "
            "recomputes at real scale, from the mnemonic/passphrase or seed alone, the account path/xpub/xprv in the "
            "purpose's SLIP-132 version and every row (path, address kind of the purpose, compressed SEC, compressed WIF) "
            "for accounts up to 2^31-1 and intervals up to 2^31, the master echo, the Wasabi key and fingerprint and the nine "
            "BIP85 entries; the library's JSON rendering is parsed back by TLC's own JSON reader and compared with the tree.",
            "Rows per purpose are capped (<= 32) to bound Base58 cost; primitive values are oracle tables.",
            "DESIGN.md section 5 C06"),
    "C08": ("TLA+ Entropy system model (OS stream, seedable PRNG, histories; TLC + negative-test deviations) + replay of "
            "TLC-simulated histories on the real library with the OS source wrapped and fed, + TLC trace validation of each New",
            "Entropy.tla: Reseed / PrngDraw / New over an OS stream whose symbols TLC chooses; EnoughBits, FromOsOnly, "
            "FreshEachTime, NoPrngInfluence hold over all histories up to the bound and are violated by the two built-in "
            "deviations (entropy from the seedable generator; one symbol short). Simulated histories are replayed with "
            "os.urandom/random._urandom wrapped: fed bytes fix the mnemonics regardless of the reseed pattern, every fed bit "
            "is flipped once per length and every entropy bit (incl. the MSB) must react, the seedable generator's state is "
            "unchanged, and with the real OS source 100/2000 mnemonics created after resetting the seedable generator to one "
            "state are pairwise distinct. Each New is also a trace event: OS bits >= 32N/3, sources, checksum validity. "
            "For unbounded histories the same module is instantiated in Apa_Entropy.tla and the conjunction of the state "
            "invariants is shown INDUCTIVE with Apalache (Init => IndInv; IndInv /\\ Next => IndInv'; the PRNG action "
            "invariant from every IndInv state; negative test: the 'short' deviation breaks the step).",
            "The mapping from OS bytes to entropy is not constrained; statistical quality of the OS source is out of scope.",
            "DESIGN.md section 5 C08"),
    "C15": ("TLA+ PaperWallet model: whitelist filter implies NoSecretLeaf/NoSecretString/PublicPreserved even with a new "
            "field (TLC) + TLC trace validation decoding EVERY string leaf of the real filtered output",
            "PaperWallet.tla tags every leaf secret/public by construction and specifies the filter structurally; TLC shows "
            "the semantic invariants for all trees incl. an extra secret or public field. Trace_Keys takes the unfiltered and "
            "the filtered dict of paranoia_mode(generate(...)) as leaf lists (every nesting depth) and requires that no "
            "filtered leaf decodes to a WIF or extended private key payload, looks like a mnemonic, equals or contains a "
            "secret string of the unfiltered tree, and that the public leaves are identical with identical pointers.",
            "Secrets shorter than 8 characters are compared by equality only; the CLI path is covered by C20.",
            "DESIGN.md section 5 C15"),
    "C20": ("TLA+ Cli system model (argument-vector witness classes x file-system states, TLC) + execution of the "
            "concretised vectors in-process and as subprocesses, each observation judged by Trace_Cli.tla",
            "Cli.tla models parse -> build -> generate -> filter -> emit over witness classes on both sides of every "
            "validator bound and eight file-path states; TLC checks FailureIsSilent, SuccessEqualsApi, NeverOverwrite, "
            "Bip44Shaped on all 5 244 vectors. The same vectors are concretised and run against main() (runpy, fresh "
            "directory, write-opens logged) and `python -m btc_hd_wallet`; Trace_Cli evaluates the model's predicates on "
            "exit status, stdout class, directory before/after, emitted JSON vs the library API (filtered by the spec's "
            "whitelist under --paranoia) and parses every row path with PathGrammar.tla.",
            "Which values must be accepted is not constrained; intervals spanning > 64 indexes are not executed; "
            "'parent not writable' is unreachable as root.",
            "DESIGN.md section 5 C20"),
}

ALL = ["C%02d" % i for i in range(1, 21)]


def main():
    checks = []
    for p in ALL:
        if p not in CLAIMED:
            continue
        tech, text, note, ref = CLAIMED[p]
        checks.append({
            "property_id": p,
            "quick_cmd": "./check %s --tier quick" % p,
            "thorough_cmd": "./check %s --tier thorough" % p,
            "evidence_file": "/verif/evidence/%s.json" % p,
            "replay_cmd_template": "./check %s --replay {path}" % p,
            "engine": "tlc",
            "level_claimed": {"category": "model_checking", "text": text, "design_ref": ref},
            "level_note": note,
            "technique": tech,
        })
    man = {
        "version": 1,
        "setup_cmd": "./setup.sh",
        "hooks": {
            "guard": "BTC_HD_WALLET_VERIF",
            "enable": "no source hooks: recorders wrap the library from outside (monkey-patching in the harness process)",
            "baseline_off_cmd": BASE_CMD,
            "source_commits": [],
            "add_only": True,
        },
        "engines": [
            {"name": "tlc", "path": "/verif/harness/tlc.py", "serves_properties": sorted(CLAIMED),
             "kind_free_text": "TLC 1.8 explicit-state model checker: bounded exhaustive models (spec/MC_*.tla), "
                               "trace validation of recorded implementation events (spec/Trace_*.tla), and "
                               "behaviour replay of TLC-generated behaviours into the implementation"},
            {"name": "apalache", "path": "/verif/harness/tlc.py", "serves_properties": ["C08"],
             "kind_free_text": "Apalache 0.58 symbolic model checker, used only for the inductive-invariant steps of "
                               "spec/Apa_Entropy.tla (the TLA+ module Entropy.tla instantiated with typed variables)"},
        ],
        "checks": checks,
        "not_applicable": [{"property_id": p, "reason": "check not built yet (work in progress; planned in DESIGN.md section 5)"}
                           for p in ALL if p not in CLAIMED],
        "notes": "All checks: ./check <id> --tier quick|thorough; exit 2 = machinery failure. See DESIGN.md.",
    }
    with open(os.path.join(VERIF, "MANIFEST.json"), "w") as f:
        json.dump(man, f, indent=1)


if __name__ == "__main__":
    main()
