"""Trace recording of the REPOSITORY'S OWN TEST SUITE (pytest plugin: `-p harness.suitetrace`).

While the pinned tests run, the public methods named below are wrapped from outside and every
call is logged (arguments, projected result or exception) as one JSON line.  `events_from()`
turns the log into trace events - the oracle table is filled afterwards from the reference
walk, the outcome is the one that was OBSERVED during the test - which the trace specifications
then judge.  This checks executions the suite already triggers against every clause of the
specification, not only against the suite's own assertions."""
import json
import os

OUT = os.environ.get("SUITE_TRACE_FILE")
_fh = None
_depth = [0]


def _log(rec):
    global _fh
    if _fh is None:
        _fh = open(OUT, "a")
    _fh.write(json.dumps(rec) + "\n")
    _fh.flush()


def _node_json(n):
    from harness.acts import node_json
    return node_json(n)


def pytest_configure(config):
    if not OUT:
        return
    from btc_hd_wallet import bip32, base_wallet
    from btc_hd_wallet.wallet_utils import Bip32Path

    def wrap_ckd(cls, name):
        orig = cls.__dict__["ckd"]

        def ckd(self, index):
            if _depth[0]:
                return orig(self, index)
            _depth[0] += 1
            try:
                try:
                    par = _node_json(self)
                except Exception:
                    par = None
                try:
                    child = orig(self, index)
                except Exception as ex:
                    if par is not None and isinstance(index, int) and 0 <= index < 2 ** 32:
                        _log({"k": name, "par": par, "i": index, "ok": False, "exc": type(ex).__name__})
                    raise
                if par is not None and isinstance(index, int) and 0 <= index < 2 ** 32:
                    from harness.acts import node_view
                    _log({"k": name, "par": par, "i": index, "ok": True, "v": node_view(child)})
                return child
            finally:
                _depth[0] -= 1
        cls.ckd = ckd
    wrap_ckd(bip32.PrvKeyNode, "CkdPriv")
    wrap_ckd(bip32.PubKeyNode, "CkdPub")

    for kind in ("p2pkh", "p2wpkh", "p2sh_p2wpkh", "p2wsh", "p2sh_p2wsh"):
        def mk(kind):
            orig = getattr(base_wallet.BaseWallet, kind + "_address")

            def addr(self, node):
                r = orig(self, node)
                if not _depth[0]:
                    try:
                        _log({"k": "Addr", "kind": kind, "net": "test" if self.testnet else "main",
                              "K": list(node.public_key.sec()), "v": r})
                    except Exception:
                        pass
                return r
            return addr
        setattr(base_wallet.BaseWallet, kind + "_address", mk(kind))

    orig_parse = Bip32Path.__dict__["parse"].__func__

    def parse(cls, s):
        try:
            r = orig_parse(cls, s)
        except Exception as ex:
            if isinstance(s, str):
                _log({"k": "PathParse", "s": s, "ok": False, "exc": type(ex).__name__})
            raise
        if isinstance(s, str):
            try:
                from harness.acts import idx_json
                _log({"k": "PathParse", "s": s, "ok": True,
                      "v": {"list": [idx_json(x) for x in r.to_list()], "str": [ord(c) for c in str(r)], "private": bool(r.private)}})
            except Exception:
                pass
        return r
    Bip32Path.parse = classmethod(parse)


def run_suite(files, out_path, repo):
    """run (part of) the pinned suite with recording on; returns pytest's exit status"""
    import subprocess
    from .tlc import VERIF
    env = dict(os.environ, SUITE_TRACE_FILE=out_path, PYTHONPATH=VERIF + os.pathsep + repo, PYTHONDONTWRITEBYTECODE="1")
    p = subprocess.run(["/venv/bin/python", "-m", "pytest", "-q", "-p", "no:cacheprovider", "-p", "harness.suitetrace", "-x",
                        "--deselect", "tests/test_parser.py::TestArgumentParsing::test_invalid_file_argument"] + list(files),
                       cwd=repo, env=env, stdout=subprocess.PIPE, stderr=subprocess.STDOUT, timeout=900)
    return p.returncode, p.stdout.decode("utf-8", "replace")


def events_from(path, kinds, start_id=0, limit=None, rng=None):
    """recorded calls -> trace events (oracle tables from the reference walk; outcomes as observed)"""
    from . import refprims as R, refwallet as W
    from .acts import ref_node, ref_strings, emitted_address_oracle
    recs = []
    seen = set()
    with open(path) as f:
        for line in f:
            r = json.loads(line)
            if r["k"] not in kinds:
                continue
            key = json.dumps({k: r[k] for k in r if k not in ("v", "ok", "exc")}, sort_keys=True)
            if key in seen:
                continue
            seen.add(key)
            recs.append(r)
    if limit and len(recs) > limit:
        recs = (rng.sample(recs, limit) if rng else recs[:limit])
    events = []
    for r in recs:
        tab = R.Table()
        eid = start_id + len(events)
        if r["k"] in ("CkdPriv", "CkdPub"):
            rpar = ref_node(tab, r["par"])
            rn = W.ckd(tab, rpar, r["i"])
            ref_strings(tab, rn)
            ev = {"id": eid, "act": r["k"], "inp": {"par": r["par"], "i": list(r["i"].to_bytes(4, "big"))}, "q": [],
                  "res": {"ok": True, "v": r["v"]} if r["ok"] else {"ok": False, "exc": r["exc"]}}
        elif r["k"] == "Addr":
            W.ref_addr(tab, r["kind"], bytes(r["K"]), r["net"])
            emitted_address_oracle(tab, r["v"])
            ev = {"id": eid, "act": "Addr", "inp": {"kind": r["kind"], "net": r["net"], "K": r["K"], "via": "wallet", "compressed": True},
                  "res": {"ok": True, "v": [ord(c) for c in r["v"]]}}
        else:
            ev = {"id": eid, "act": "PathParse", "inp": [ord(c) for c in r["s"]],
                  "res": {"ok": True, "v": r["v"]} if r["ok"] else {"ok": False, "exc": r["exc"]}}
        ev["o"] = tab.rows
        ev["from_suite"] = True
        events.append(ev)
    return events
