"""Trace recording of the REPOSITORY'S OWN TEST SUITE (pytest plugin: `-p harness.suitetrace`).

While the pinned tests run, the public methods named below are wrapped from outside and every
call is logged (arguments, projected result or exception) as one JSON line.  `events_from()`
turns the log into trace events - the oracle table is filled afterwards from the reference
walk, the outcome is the one that was OBSERVED during the test - which the trace specifications
then judge.  This checks executions the suite already triggers against every clause of the
specification, not only against the suite's own assertions."""
import json
import os

OUT = os.environ.get("SUITE_TRACE_FILE")
_fh = None
_depth = [0]


def _log(rec):
    global _fh
    if _fh is None:
        _fh = open(OUT, "a")
    _fh.write(json.dumps(rec) + "\n")
    _fh.flush()


def _node_json(n):
    from harness.acts import node_json
    return node_json(n)


def pytest_configure(config):
    if not OUT:
        return
    from btc_hd_wallet import bip32, base_wallet
    from btc_hd_wallet.wallet_utils import Bip32Path

    def wrap_ckd(cls, name):
        orig = cls.__dict__["ckd"]

        def ckd(self, index):
            if _depth[0]:
                return orig(self, index)
            _depth[0] += 1
            try:
                try:
                    par = _node_json(self)
                except Exception:
                    par = None
                try:
                    child = orig(self, index)
                except Exception as ex:
                    if par is not None and isinstance(index, int) and 0 <= index < 2 ** 32:
                        _log({"k": name, "par": par, "i": index, "ok": False, "exc": type(ex).__name__})
                    raise
                if par is not None and isinstance(index, int) and 0 <= index < 2 ** 32:
                    from harness.acts import node_view
                    _log({"k": name, "par": par, "i": index, "ok": True, "v": node_view(child)})
                return child
            finally:
                _depth[0] -= 1
        cls.ckd = ckd
    wrap_ckd(bip32.PrvKeyNode, "CkdPriv")
    wrap_ckd(bip32.PubKeyNode, "CkdPub")

    for kind in ("p2pkh", "p2wpkh", "p2sh_p2wpkh", "p2wsh", "p2sh_p2wsh"):
        def mk(kind):
            orig = getattr(base_wallet.BaseWallet, kind + "_address")

            def addr(self, node):
                r = orig(self, node)
                if not _depth[0]:
                    try:
                        _log({"k": "Addr", "kind": kind, "net": "test" if self.testnet else "main",
                              "K": list(node.public_key.sec()), "v": r})
                    except Exception:
                        pass
                return r
            return addr
        setattr(base_wallet.BaseWallet, kind + "_address", mk(kind))

    orig_parse = Bip32Path.__dict__["parse"].__func__

    def parse(cls, s):
        try:
            r = orig_parse(cls, s)
        except Exception as ex:
            if isinstance(s, str):
                _log({"k": "PathParse", "s": s, "ok": False, "exc": type(ex).__name__})
            raise
        if isinstance(s, str):
            try:
                from harness.acts import idx_json
                _log({"k": "PathParse", "s": s, "ok": True,
                      "v": {"list": [idx_json(x) for x in r.to_list()], "str": [ord(c) for c in str(r)], "private": bool(r.private)}})
            except Exception:
                pass
        return r
    Bip32Path.parse = classmethod(parse)
    _generic_wrappers()


# ------------------------------------------------------------------ generic recorders
# One record {"k": <trace action>, "inp": <the action's input JSON>, "res": <the OBSERVED outcome in
# the action's result projection>} per outermost call.  Arguments outside the action's input
# grammar (wrong types) are not recorded.
def _rec(kind, inp, ok, v, proj):
    """project under the depth guard (projections call back into the library) and log"""
    _depth[0] += 1
    try:
        try:
            if ok:
                try:
                    res = {"ok": True, "v": proj(v)}
                except Exception as ex:
                    res = {"ok": False, "exc": type(ex).__name__}
            else:
                res = {"ok": False, "exc": type(v).__name__}
            _log({"k": kind, "inp": inp, "res": res})
        except Exception:
            pass
    finally:
        _depth[0] -= 1


def _observe(orig, kind, inp_of, proj):
    """wrapper: inp_of(*a, **kw) -> action input or None (= not recordable), evaluated BEFORE the call"""
    import functools

    @functools.wraps(orig)
    def w(*a, **kw):
        if _depth[0]:
            return orig(*a, **kw)
        _depth[0] += 1
        try:
            try:
                inp = inp_of(*a, **kw)
            except Exception:
                inp = None
        finally:
            _depth[0] -= 1
        if inp is None:
            return orig(*a, **kw)
        state = None
        if isinstance(inp, dict):
            state = inp.pop("__state__", None)
            if "__list__" in inp:
                inp = inp["__list__"]
        try:
            r = orig(*a, **kw)
        except Exception as ex:
            _rec(kind, inp, False, ex, None)
            raise
        _rec(kind, inp, True, r, (lambda v: proj(v, state)) if state is not None else proj)
        return r
    return w


def _patch_function(mod, name, kind, inp_of, proj):
    import sys
    orig = getattr(mod, name)
    w = _observe(orig, kind, inp_of, proj)
    for m in list(sys.modules.values()):
        if m is not None and getattr(m, "__name__", "").startswith("btc_hd_wallet") and getattr(m, name, None) is orig:
            setattr(m, name, w)


def _generic_wrappers():
    from io import BytesIO
    from btc_hd_wallet import helper, bech32, script, keys, bip39, bip32, bip85, base_wallet
    from harness.core import B, T
    from harness.acts import cmds_to_json, le_trim, node_json, _indices

    isb = lambda x: isinstance(x, (bytes, bytearray))
    _patch_function(helper, "encode_base58", "B58Enc", lambda data: B(data) if isb(data) else None, T)
    _patch_function(helper, "decode_base58", "B58Dec", lambda s: T(s) if isinstance(s, str) else None, B)
    _patch_function(helper, "encode_base58_checksum", "B58EncCheck", lambda data: B(data) if isb(data) else None, T)
    _patch_function(helper, "decode_base58_checksum", "B58DecCheck", lambda s: T(s) if isinstance(s, str) else None, B)
    _patch_function(helper, "encode_varint", "VarintEnc",
                    lambda i: le_trim(i) if isinstance(i, int) and not isinstance(i, bool) and 0 <= i < 2 ** 80 else None, B)

    def stream_inp(s):
        if type(s) is not BytesIO:
            return None
        pos = s.tell()
        return {"__state__": (s, pos), "bytes": B(s.getvalue()[pos:])}

    def read_varint_inp(s):
        d = stream_inp(s)
        return None if d is None else {"__state__": d["__state__"], "__list__": d["bytes"]}

    _patch_function(helper, "read_varint", "VarintRead", read_varint_inp,
                    lambda n, st: {"val": le_trim(n), "used": st[0].tell() - st[1]})
    orig_sparse = script.Script.__dict__["parse"].__func__
    script.Script.parse = classmethod(_observe(orig_sparse, "ScriptParse", lambda cls, s: read_varint_inp(s),
                                               lambda sc, st: {"cmds": cmds_to_json(sc.cmds), "used": st[0].tell() - st[1]}))

    def cmds_ok(cmds):
        return all((isinstance(c, int) and not isinstance(c, bool) and 0 <= c < 256) or isb(c) for c in cmds)
    for nm, raw in (("raw_serialize", True), ("serialize", False)):
        orig = script.Script.__dict__[nm]
        setattr(script.Script, nm, _observe(orig, "ScriptSer",
                                            (lambda raw: lambda self: {"cmds": cmds_to_json(self.cmds), "raw": raw}
                                             if cmds_ok(self.cmds) else None)(raw), B))

    def enc_inp(hrp, witver, witprog):
        if not isinstance(hrp, str) or not isinstance(witver, int) or isinstance(witver, bool) or not -2 ** 20 < witver < 2 ** 20:
            return None
        prog = list(witprog)
        if not all(isinstance(x, int) and 0 <= x < 256 for x in prog):
            return None
        return {"hrp": T(hrp), "ver": witver, "prog": prog}
    _patch_function(bech32, "encode", "SegwitEnc", enc_inp, lambda v: _none_is_error(v) and T(v))
    _patch_function(bech32, "decode", "SegwitDec",
                    lambda hrp, addr: {"hrp": T(hrp), "addr": T(addr)} if isinstance(hrp, str) and isinstance(addr, str) else None,
                    lambda t: _none_is_error(t[0]) and _none_is_error(t[1]) and {"ver": t[0], "prog": list(t[1])})

    # keys
    orig_wif = keys.PrivateKey.__dict__["wif"]

    def wif_proj(w):
        try:
            back = {"ok": True, "k": B(bytes(keys.PrivateKey.from_wif(w)))}
        except Exception:
            back = {"ok": False}
        return {"wif": T(w), "back": back}
    keys.PrivateKey.wif = _observe(orig_wif, "Wif",
                                   lambda self, compressed=True, testnet=False:
                                   {"k": B(bytes(self)), "net": "test" if testnet else "main", "compressed": bool(compressed)},
                                   wif_proj)
    orig_fw = keys.PrivateKey.__dict__["from_wif"].__func__
    keys.PrivateKey.from_wif = classmethod(_observe(orig_fw, "FromWif", lambda cls, wif_str: {"__list__": T(wif_str)}
                                                    if isinstance(wif_str, str) else None, lambda pk: {"k": B(bytes(pk))}))
    orig_pp = keys.PublicKey.__dict__["parse"].__func__
    keys.PublicKey.parse = classmethod(_observe(orig_pp, "SecParse", lambda cls, key_bytes: {"__list__": B(key_bytes)}
                                                if isb(key_bytes) else None, lambda pk: {"secc": B(pk.sec(True))}))

    # bip39
    _patch_function(bip39, "mnemonic_from_entropy", "Mnemonic",
                    lambda entropy: {"hex": T(entropy)} if isinstance(entropy, str) else None, lambda m: {"idx": _indices(m)})
    _patch_function(bip39, "bip39_seed_from_mnemonic", "Seed",
                    lambda mnemonic, password="": {"m": T(mnemonic), "p": T(password)}
                    if isinstance(mnemonic, str) and isinstance(password, str) else None, B)

    # extended keys
    DEFAULT = {("pub", False): 0x0488B21E, ("pub", True): 0x043587CF, ("prv", False): 0x0488ADE4, ("prv", True): 0x04358394}

    def ser_inp(kind):
        def f(self, version=None):
            if version is None:
                version = DEFAULT[(kind, bool(self.testnet))]
            if not isinstance(version, int) or not 0 <= version < 2 ** 32 or not 0 <= self.depth < 256:
                return None
            return {"node": node_json(self), "version": B(version.to_bytes(4, "big")), "kind": kind}
        return f
    bip32.PubKeyNode.extended_public_key = _observe(bip32.PubKeyNode.__dict__["extended_public_key"], "ExtSer", ser_inp("pub"), T)
    bip32.PrvKeyNode.extended_private_key = _observe(bip32.PrvKeyNode.__dict__["extended_private_key"], "ExtSer", ser_inp("prv"), T)

    orig_np = bip32.PubKeyNode.__dict__["parse"].__func__

    def parse_inp(cls, s, testnet=False):
        d = {"asPrv": cls is bip32.PrvKeyNode, "net": "test" if testnet else "main"}
        if cls not in (bip32.PrvKeyNode, bip32.PubKeyNode):
            return None
        if isinstance(s, str):
            d.update(form="str", s=T(s), __state__=(None, 0))
        elif isinstance(s, bytes):
            d.update(form="bytes", s=B(s), __state__=(None, 0))
        elif type(s) is BytesIO:
            d.update(form="stream-offset", s=B(s.getvalue()), offset=s.tell(), __state__=(s, s.tell()))
        else:
            return None
        return d

    def parse_proj(n, st):
        as_prv = type(n) is bip32.PrvKeyNode
        d = {"node": node_json(n), "version": B((n.parsed_version or 0).to_bytes(4, "big"))}
        try:
            again = n.extended_private_key(version=n.parsed_version) if as_prv else n.extended_public_key(version=n.parsed_version)
        except Exception:
            again = "ERR"
        d["again"] = T(again)
        if st[0] is not None:
            d["pos"] = st[0].tell()
        return d
    bip32.PubKeyNode.parse = classmethod(_observe(orig_np, "ExtParse", parse_inp, parse_proj))

    orig_fek = base_wallet.BaseWallet.__dict__["from_extended_key"].__func__
    base_wallet.BaseWallet.from_extended_key = classmethod(_observe(
        orig_fek, "Import", lambda cls, extended_key: {"s": T(extended_key)} if isinstance(extended_key, str) else None,
        lambda w: {"net": "test" if w.testnet else "main", "watch_only": bool(w.watch_only), "has_bip85": w.bip85 is not None,
                   "node": node_json(w.master), "master_net": "test" if w.master.testnet else "main"}))

    # BIP85 applications
    def ix(i):
        return {"mag": B(abs(i).to_bytes(5, "big")), "neg": i < 0}

    def b85(app, pname, pdefault):
        orig = bip85.BIP85DeterministicEntropy.__dict__[app if app != "mnemonic" else "bip39_mnemonic"]

        def inp_of(self, *a, **kw):
            names = ([pname] if pname else []) + ["index"]
            vals = dict(zip(names, a))
            vals.update(kw)
            p = vals.get(pname, pdefault) if pname else 0
            i = vals.get("index", 0)
            if not all(isinstance(x, int) and not isinstance(x, bool) and abs(x) < 2 ** 39 for x in (p, i)) or not -2 ** 20 < p < 2 ** 20:
                return None
            return {"master": node_json(self.master_node), "app": app, "p": p, "ix": ix(i)}
        setattr(bip85.BIP85DeterministicEntropy, orig.__name__, _observe(orig, "Bip85", inp_of, T))
    b85("mnemonic", "word_count", 24)
    b85("wif", None, 0)
    b85("xprv", None, 0)
    b85("hex", "num_bytes", 32)
    b85("pwd", "pwd_len", 21)


def observed_event(kind, inp, res, eid=0):
    """generic record -> trace event: the action's own constructor supplies the oracle table (it re-executes
    the call, whose outcome is discarded); the outcome judged is the one OBSERVED during the test"""
    from . import refprims as R
    from .acts import make, emitted_address_oracle
    ev = make(kind, inp, eid)
    ev["res"] = res
    tab = R.Table()
    tab.rows = ev["o"]
    tab.seen = set((row["f"], json.dumps(row["i"])) for row in tab.rows)
    if res["ok"]:
        for s in _strings(res.get("v")):
            body = R.b58check_body(s)
            if body is not None and ("hash256", json.dumps(list(body))) not in tab.seen:
                emitted_address_oracle(tab, s)
    ev["o"] = tab.rows
    ev["from_suite"] = True
    return ev


def _strings(v):
    """text values (code-point lists of Base58 characters) inside an observed result"""
    from .refprims import B58
    out = []
    if isinstance(v, list) and v and all(isinstance(c, int) and 0 < c < 128 and chr(c) in B58 for c in v):
        out.append("".join(chr(c) for c in v))
    elif isinstance(v, dict):
        for x in v.values():
            out += _strings(x)
    return out


def _none_is_error(v):
    if v is None:
        raise ValueError("None")
    return True


def run_suite(files, out_path, repo):
    """run (part of) the pinned suite with recording on; returns pytest's exit status"""
    import subprocess
    from .tlc import VERIF
    env = dict(os.environ, SUITE_TRACE_FILE=out_path, PYTHONPATH=VERIF + os.pathsep + repo, PYTHONDONTWRITEBYTECODE="1")
    p = subprocess.run(["/venv/bin/python", "-m", "pytest", "-q", "-p", "no:cacheprovider", "-p", "harness.suitetrace", "-x",
                        "--deselect", "tests/test_parser.py::TestArgumentParsing::test_invalid_file_argument"] + list(files),
                       cwd=repo, env=env, stdout=subprocess.PIPE, stderr=subprocess.STDOUT, timeout=900)
    return p.returncode, p.stdout.decode("utf-8", "replace")


def events_from(path, kinds, start_id=0, limit=None, rng=None):
    """recorded calls -> trace events (oracle tables from the reference walk; outcomes as observed)"""
    from . import refprims as R, refwallet as W
    from .acts import ref_node, ref_strings, emitted_address_oracle
    recs = []
    seen = set()
    with open(path) as f:
        for line in f:
            r = json.loads(line)
            if r["k"] not in kinds:
                continue
            key = json.dumps({k: r[k] for k in r if k not in ("v", "ok", "exc", "res")}, sort_keys=True)
            if key in seen:
                continue
            seen.add(key)
            recs.append(r)
    if limit and len(recs) > limit:
        # stratified by (action, outcome): rare groups (failures, small families) are kept whole first
        groups = {}
        for r in recs:
            groups.setdefault((r["k"], r["res"]["ok"] if "res" in r else r.get("ok")), []).append(r)
        for g in groups.values():
            if rng:
                rng.shuffle(g)
        picked = []
        while len(picked) < limit and any(groups.values()):
            for key in sorted(groups, key=str):
                if groups[key] and len(picked) < limit:
                    picked.append(groups[key].pop())
        recs = picked
    events = []
    for r in recs:
        tab = R.Table()
        eid = start_id + len(events)
        if "inp" in r:
            events.append(observed_event(r["k"], r["inp"], r["res"], eid))
            continue
        if r["k"] in ("CkdPriv", "CkdPub"):
            rpar = ref_node(tab, r["par"])
            rn = W.ckd(tab, rpar, r["i"])
            ref_strings(tab, rn)
            ev = {"id": eid, "act": r["k"], "inp": {"par": r["par"], "i": list(r["i"].to_bytes(4, "big"))}, "q": [],
                  "res": {"ok": True, "v": r["v"]} if r["ok"] else {"ok": False, "exc": r["exc"]}}
        elif r["k"] == "Addr":
            W.ref_addr(tab, r["kind"], bytes(r["K"]), r["net"])
            emitted_address_oracle(tab, r["v"])
            ev = {"id": eid, "act": "Addr", "inp": {"kind": r["kind"], "net": r["net"], "K": r["K"], "via": "wallet", "compressed": True},
                  "res": {"ok": True, "v": [ord(c) for c in r["v"]]}}
        else:
            ev = {"id": eid, "act": "PathParse", "inp": [ord(c) for c in r["s"]],
                  "res": {"ok": True, "v": r["v"]} if r["ok"] else {"ok": False, "exc": r["exc"]}}
        ev["o"] = tab.rows
        ev["from_suite"] = True
        events.append(ev)
    return events
