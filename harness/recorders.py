"""Recorders: context managers that wrap, from OUTSIDE, the module attributes the
properties name as observation points.  Nothing in /repo is edited.  A wrapper
never changes a return value unless the run is a chosen-PRF / chosen-entropy
run, in which case the substitution itself is what the property prescribes."""
import hashlib
import hmac as _hmac
import os
import random as _random

_REAL_NEW = _hmac.new
_REAL_DIGEST = _hmac.digest
_REAL_HMAC_CLASS = _hmac.HMAC


class _Fake:
    """stands for an HMAC object whose digest is a chosen value"""

    def __init__(self, out, name="sha512"):
        self._out = out
        self.name = "hmac-" + name
        self.digest_size = len(out)
        self.block_size = 128

    def digest(self):
        return self._out

    def hexdigest(self):
        return self._out.hex()

    def update(self, msg):
        raise RuntimeError("chosen-PRF object cannot be updated")

    def copy(self):
        return self


class PrfTap:
    """Observe (and optionally substitute) every HMAC computation made through the
    standard library's hmac module while the block runs.

    chosen: None, or a function (key, msg) -> 64-byte output or None (None = real)."""

    def __init__(self, chosen=None):
        self.chosen = chosen
        self.queries = []           # dicts key, msg, out, alg

    def _alg(self, digestmod):
        if callable(digestmod):
            try:
                return digestmod().name
            except Exception:
                return "?"
        return str(getattr(digestmod, "name", digestmod)).lower()

    def __enter__(self):
        tap = self
        import sys
        import threading
        inside = threading.local()

        # (1) the library's own HMAC-SHA512 helper, under every name it was imported as (helper.hmac_sha512,
        # bip32.hmac_sha512, bip85.hmac_sha512, ...): the substitution point the properties name.  Substituting
        # here is independent of how the helper computes HMAC internally (one-shot, keyed-state reuse, ...).
        self._named = []
        helper = sys.modules.get("btc_hd_wallet.helper")
        orig = getattr(helper, "hmac_sha512", None) if helper else None
        if orig is not None and not getattr(orig, "_prf_tap", False):
            def hmac_sha512(key, msg):
                k, m = bytes(key), bytes(msg)
                out = tap.chosen(k, m) if tap.chosen else None
                if out is not None:
                    tap.queries.append({"key": k, "msg": m, "out": out, "alg": "sha512", "chosen": True})
                    return out
                inside.on = True
                try:
                    out = orig(key, msg)
                finally:
                    inside.on = False
                tap.queries.append({"key": k, "msg": m, "out": bytes(out), "alg": "sha512", "chosen": False})
                return out
            hmac_sha512._prf_tap = True
            for name, mod in list(sys.modules.items()):
                if mod is not None and name.startswith("btc_hd_wallet") and getattr(mod, "hmac_sha512", None) is orig:
                    self._named.append((mod, orig))
                    mod.hmac_sha512 = hmac_sha512

        # (2) the standard library underneath (code that calls hmac directly)
        def new(key, msg=None, digestmod=""):
            if getattr(inside, "on", False):
                return _REAL_NEW(key, msg, digestmod)
            alg = tap._alg(digestmod)
            k, m = bytes(key), (bytes(msg) if msg is not None else b"")
            out = tap.chosen(k, m) if (tap.chosen and alg == "sha512") else None
            if out is not None:
                tap.queries.append({"key": k, "msg": m, "out": out, "alg": alg, "chosen": True})
                return _Fake(out)
            h = _REAL_NEW(key, msg, digestmod)
            if msg is not None:
                tap.queries.append({"key": k, "msg": m, "out": h.digest(), "alg": alg, "chosen": False})
            return h

        def digest(key, msg, digest):
            if getattr(inside, "on", False):
                return _REAL_DIGEST(key, msg, digest)
            alg = tap._alg(digest)
            k, m = bytes(key), bytes(msg)
            out = tap.chosen(k, m) if (tap.chosen and alg == "sha512") else None
            if out is None:
                out = _REAL_DIGEST(key, msg, digest)
                tap.queries.append({"key": k, "msg": m, "out": out, "alg": alg, "chosen": False})
            else:
                tap.queries.append({"key": k, "msg": m, "out": out, "alg": alg, "chosen": True})
            return out

        _hmac.new = new
        _hmac.digest = digest
        return self

    def __exit__(self, *a):
        _hmac.new = _REAL_NEW
        _hmac.digest = _REAL_DIGEST
        for mod, orig in self._named:
            mod.hmac_sha512 = orig
        self._named = []
        return False

    def sha512_queries(self):
        return [q for q in self.queries if q["alg"] == "sha512"]


class EntropyTap:
    """Observe (and optionally substitute) the operating-system entropy source:
    os.urandom and random._urandom (the name random.SystemRandom reads through)."""

    def __init__(self, feed=None):
        self.feed = feed            # None or function n -> bytes
        self.requests = []          # (source, n, bytes)

    def __enter__(self):
        tap = self
        self._os = os.urandom
        self._ru = _random._urandom

        def mk(src, real):
            def urandom(n):
                b = tap.feed(n) if tap.feed else real(n)
                tap.requests.append((src, n, bytes(b)))
                return b
            return urandom

        os.urandom = mk("os.urandom", self._os)
        _random._urandom = mk("random._urandom", self._ru)
        # the other standard doors to the same kernel source: os.getrandom, and every module-level alias of
        # os.urandom made with `from os import urandom` before the tap was installed (secrets, uuid, ...)
        self._gr = getattr(os, "getrandom", None)
        if self._gr is not None:
            real_gr = self._gr

            def getrandom(size, flags=0):
                b = tap.feed(size) if tap.feed else real_gr(size, flags)
                tap.requests.append(("os.getrandom", size, bytes(b)))
                return b
            os.getrandom = getrandom
        import sys
        self._aliases = []
        wrapped = os.urandom
        for name, mod in list(sys.modules.items()):
            if mod is None or mod is os or mod is _random or name.startswith("harness"):
                continue
            try:
                items = list(vars(mod).items())
            except Exception:
                continue
            for attr, val in items:
                if val is self._os:
                    self._aliases.append((mod, attr))
                    setattr(mod, attr, wrapped)
        return self

    def __exit__(self, *a):
        os.urandom = self._os
        _random._urandom = self._ru
        if self._gr is not None:
            os.getrandom = self._gr
        for mod, attr in self._aliases:
            setattr(mod, attr, self._os)
        self._aliases = []
        return False
