"""TLC runner: one place that knows how TLC is started, where scratch lives and
how TLC's output is turned into numbers and verdict tuples."""
import json
import os
import re
import shutil
import subprocess
import tempfile
import time
from concurrent.futures import ThreadPoolExecutor

VERIF = os.path.dirname(os.path.dirname(os.path.abspath(__file__)))
SPEC = os.path.join(VERIF, "spec")
JAR = "/opt/veriftools/tla/tla2tools.jar"
CM = "/opt/veriftools/tla/CommunityModules-deps.jar"


class MachineryError(Exception):
    """The verification machinery itself failed (exit status 2)."""


_scratch_root = None


def scratch_root():
    global _scratch_root
    if _scratch_root is None:
        base = "/dev/shm" if os.path.isdir("/dev/shm") and os.access("/dev/shm", os.W_OK) \
            else tempfile.gettempdir()
        _sweep_stale(base)
        _scratch_root = tempfile.mkdtemp(prefix="verif.%d." % os.getpid(), dir=base)
    return _scratch_root


def _sweep_stale(base):
    """scratch roots left behind by runs that were killed (time limit, OOM): their owner process is gone.
    On a tmpfs they would keep occupying memory."""
    try:
        names = os.listdir(base)
    except OSError:
        return
    for n in names:
        m = re.match(r"^verif\.(\d+)\.", n)
        if not m:
            continue
        pid = int(m.group(1))
        if pid == os.getpid() or os.path.exists("/proc/%d" % pid):
            continue
        shutil.rmtree(os.path.join(base, n), ignore_errors=True)


def scratch_dir(name="d"):
    return tempfile.mkdtemp(prefix=name + ".", dir=scratch_root())


def cleanup():
    global _scratch_root
    if _scratch_root and os.path.isdir(_scratch_root):
        shutil.rmtree(_scratch_root, ignore_errors=True)
    _scratch_root = None


class TlcResult:
    def __init__(self, out, rc, wall):
        self.out = out
        self.rc = rc
        self.wall = wall
        m = re.search(r"(\d+) states generated, (\d+) distinct states found, (\d+) states left", out)
        self.generated = int(m.group(1)) if m else 0
        self.distinct = int(m.group(2)) if m else 0
        self.left = int(m.group(3)) if m else 0
        m = re.search(r"The depth of the complete state graph search is (\d+)", out)
        self.depth = int(m.group(1)) if m else 0
        self.ok = ("Model checking completed. No error has been found." in out) or \
                  ("Finished computing initial states" in out and "Error:" not in out and rc == 0)
        self.invariant_violated = re.findall(r"Invariant (\S+) is violated", out)
        self.property_violated = re.findall(r"property (\S+) (?:was|is) violated", out)
        self.error = "Error:" in out or rc not in (0,)

    def tuples(self, tag):
        """All printed TLA+ tuples whose first element is the string `tag`,
        parsed into Python lists (bracket matching; robust to line wrapping)."""
        return [t for t in parse_tuples(self.out) if t and t[0] == tag]

    def coverage(self):
        """action name -> (distinct, total) from a -coverage run."""
        cov = {}
        for m in re.finditer(r"<(\w+) line \d+, col \d+ to line \d+, col \d+ of module \w+>: (\d+):(\d+)",
                             self.out):
            a, d, t = m.group(1), int(m.group(2)), int(m.group(3))
            if a in cov:
                cov[a] = (cov[a][0] + d, cov[a][1] + t)
            else:
                cov[a] = (d, t)
        return cov


def _tok(s):
    i, n = 0, len(s)
    while i < n:
        c = s[i]
        if c.isspace() or c == ",":
            i += 1
        elif s.startswith("<<", i):
            yield "<<"
            i += 2
        elif s.startswith(">>", i):
            yield ">>"
            i += 2
        elif c == '"':
            j = i + 1
            buf = []
            while j < n and s[j] != '"':
                if s[j] == "\\" and j + 1 < n:
                    buf.append(s[j + 1])
                    j += 2
                else:
                    buf.append(s[j])
                    j += 1
            yield ("s", "".join(buf))
            i = j + 1
        elif c.isdigit() or (c == "-" and i + 1 < n and s[i + 1].isdigit()):
            j = i + 1
            while j < n and s[j].isdigit():
                j += 1
            yield ("n", int(s[i:j]))
            i = j
        elif s.startswith("TRUE", i):
            yield ("n", True)
            i += 4
        elif s.startswith("FALSE", i):
            yield ("n", False)
            i += 5
        else:
            yield ("x", c)
            i += 1


def parse_tuples(text):
    """Extract every top-level <<...>> value printed by TLC (PrintT) as nested lists."""
    res = []
    stack = []
    for t in _tok(text):
        if t == "<<":
            stack.append([])
        elif t == ">>":
            if not stack:
                continue
            v = stack.pop()
            if stack:
                stack[-1].append(v)
            else:
                res.append(v)
        elif stack:
            if t[0] in ("s", "n"):
                stack[-1].append(t[1])
            # other characters inside tuples (records etc.) are ignored
    return res


def run_tlc(module, cfg, env=None, workers=1, timeout=1800, args=(), heap="2g",
            deadlock=False, jvm=()):
    """Run TLC on /verif/spec/<module>.tla with the given cfg text."""
    d = scratch_dir("tlc")
    cfgp = os.path.join(d, module + ".cfg")
    with open(cfgp, "w") as f:
        f.write(cfg)
    cmd = ["java", "-XX:+UseParallelGC", "-XX:ParallelGCThreads=2", "-Xss64m", "-Xmx" + heap,
           "-DTLA-Library=" + SPEC, "-Dtlc2.tool.impl.Tool.cdot=true"] + list(jvm) + \
          ["-cp", JAR + ":" + CM, "tlc2.TLC",
           "-workers", str(workers), "-metadir", os.path.join(d, "meta"),
           "-noGenerateSpecTE", "-config", cfgp]
    if not deadlock:
        cmd.append("-deadlock")  # -deadlock DISABLES deadlock checking
    cmd += list(args)
    cmd.append(os.path.join(SPEC, module + ".tla"))
    e = dict(os.environ)
    e.pop("JAVA_TOOL_OPTIONS", None)
    if env:
        e.update(env)
    t0 = time.time()
    try:
        p = subprocess.run(cmd, stdout=subprocess.PIPE, stderr=subprocess.STDOUT, env=e,
                           timeout=timeout, cwd=d)
        out, rc = p.stdout.decode("utf-8", "replace"), p.returncode
    except subprocess.TimeoutExpired as ex:
        out = (ex.stdout or b"").decode("utf-8", "replace") + "\nError: TIMEOUT\n"
        rc = 124
    wall = time.time() - t0
    shutil.rmtree(d, ignore_errors=True)
    return TlcResult(out, rc, wall)


def run_apalache(module, files, init, inv, length, next_=None, timeout=900):
    """apalache-mc check on a scratch copy of spec/<files>; -> ("ok" | "violation" | "error", output tail, seconds).
    Used for inductive-invariant steps (Init => IndInv at length 0, IndInv /\\ Next => IndInv' at length 1)."""
    d = scratch_dir("apa")
    for f in files:
        shutil.copy(os.path.join(SPEC, f), os.path.join(d, f))
    cmd = ["apalache-mc", "check", "--init=" + init, "--inv=" + inv, "--length=%d" % length, "--out-dir=" + os.path.join(d, "out")]
    if next_:
        cmd.append("--next=" + next_)
    cmd.append(module + ".tla")
    e = dict(os.environ)
    e.pop("JAVA_TOOL_OPTIONS", None)
    t0 = time.time()
    try:
        p = subprocess.run(cmd, stdout=subprocess.PIPE, stderr=subprocess.STDOUT, env=e, timeout=timeout, cwd=d)
        out, rc = p.stdout.decode("utf-8", "replace"), p.returncode
    except subprocess.TimeoutExpired as ex:
        out, rc = (ex.stdout or b"").decode("utf-8", "replace") + "\nTIMEOUT\n", 124
    shutil.rmtree(d, ignore_errors=True)
    tail = "\n".join(out.splitlines()[-25:])
    if rc == 0 and "EXITCODE: OK" in out:
        return "ok", tail, time.time() - t0
    if rc == 12 and "Checker has found an error" in out:
        return "violation", tail, time.time() - t0
    return "error", tail, time.time() - t0


def run_many(jobs, parallel=16):
    """jobs: list of kwargs dicts for run_tlc; run up to `parallel` at a time."""
    with ThreadPoolExecutor(max_workers=parallel) as ex:
        return list(ex.map(lambda kw: run_tlc(**kw), jobs))


def write_json(path, obj):
    with open(path, "w") as f:
        json.dump(obj, f, separators=(",", ":"))


if __name__ == "__main__":
    import sys
    mod = sys.argv[1]
    cfgf = sys.argv[2] if len(sys.argv) > 2 and not sys.argv[2].startswith("-") else None
    rest = [a for a in sys.argv[2:] if a != cfgf]
    w = 1
    if "-w" in rest:
        i = rest.index("-w"); w = int(rest[i + 1]); del rest[i:i + 2]
    r = run_tlc(mod, open(cfgf).read() if cfgf else "", workers=w, args=rest, heap="8g")
    print(r.out)
    print("rc", r.rc, "wall %.1f" % r.wall, "distinct", r.distinct)
    cleanup()
