"""Shared machinery of the registered checks: context object (TLC runs, trace
validation, violations, known findings, evidence, replay files)."""
import hashlib
import json
import os
import random
import sys
import time

from . import tlc
from .tlc import MachineryError, VERIF

REPO = os.environ.get("VERIF_REPO", "/repo")
KNOWN = os.path.join(VERIF, "known_findings.json")


def repo_on_path():
    """The implementation under test is imported from /repo's working tree."""
    if sys.path[0] != REPO:
        sys.path.insert(0, REPO)
    sys.dont_write_bytecode = True


def B(b):
    """bytes -> JSON list of ints."""
    return list(b)


def T(s):
    """text -> JSON list of code points."""
    return [ord(c) for c in s]


def untext(lst):
    return "".join(chr(c) for c in lst)


class Violation:
    def __init__(self, prop, call_site, cls, what, replay):
        self.prop, self.call_site, self.cls, self.what, self.replay = prop, call_site, cls, what, replay
        self.path = None
        self.known = None


class Ctx:
    def __init__(self, prop, tier, seed):
        self.prop, self.tier, self.seed = prop, tier, seed
        self.rng = random.Random((hash(prop) & 0xffff) * 1000003 + seed) if False else \
            random.Random("%s/%d" % (prop, seed))
        self.t0 = time.time()
        self.states = 0
        self.transitions = 0
        self.traces = 0            # traces / behaviours validated against the implementation
        self.evaluations = 0
        self.nontrivial = set()
        self.samples = []
        self.violations = []
        self.mc_runs = []
        self.actions_covered = {}
        self.notes = {}
        self.binding_selfcheck = None
        self.exhaustive = False
        self.quick = tier == "quick"
        self.keys = {}

    # ---------------------------------------------------------------- MC
    def mc(self, module, cfg, workers=16, timeout=3000, args=(), heap="8g", expect_ok=True,
           coverage=False, env=None, label=None):
        a = list(args)
        dot = None
        if coverage:
            # per-action transition counts from the labelled state graph.  (TLC's own -coverage
            # is 50-100x slower on operator-heavy models and is not used.)
            dot = os.path.join(tlc.scratch_dir("dot"), "g.dot")
            a += ["-dump", "dot,actionlabels", dot]
        r = tlc.run_tlc(module, cfg, workers=workers, timeout=timeout, args=a, heap=heap, env=env)
        self.states += r.distinct
        self.transitions += r.generated
        self.mc_runs.append({"module": module, "label": label or module, "distinct": r.distinct,
                             "generated": r.generated, "depth": r.depth, "wall_s": round(r.wall, 1)})
        if coverage:
            import collections
            import re
            cnt = collections.Counter()
            if os.path.exists(dot):
                with open(dot) as f:
                    for line in f:
                        m = re.match(r'^-?\d+ -> -?\d+ \[label="(\w+)', line)
                        if m:
                            cnt[m.group(1)] += 1
                os.remove(dot)
            for k, v in cnt.items():
                self.actions_covered[module + "." + k] = self.actions_covered.get(module + "." + k, 0) + v
        if expect_ok and not r.ok:
            tail = "\n".join(r.out.splitlines()[-60:])
            raise MachineryError("bounded model %s did not pass TLC:\n%s" % (module, tail))
        return r

    def require_actions(self, module, names):
        """Anti-vacuity: every named action of the bounded model must have been taken."""
        for n in names:
            if self.actions_covered.get(module + "." + n, 0) <= 0:
                raise MachineryError("vacuity: action %s of %s never taken (coverage %r)"
                                     % (n, module, self.actions_covered))

    # ------------------------------------------------------- trace validation
    def validate(self, module, events, shards=None, timeout=3000, heap="3g", per_event=True,
                 min_shard=400, const=None):
        """Validate events (list of dicts, each with unique 'id') with the trace
        spec `module`.  Returns {id: clause} for rejected events.  Any MISS (oracle
        table entry the spec wanted but the harness did not supply) or an
        incomplete TLC run is a machinery failure."""
        if not events:
            return {}
        n = len(events)
        if shards is None:
            shards = max(1, min(16, n // min_shard))
        d = tlc.scratch_dir("tr")
        jobs = []
        chunks = [events[i::shards] for i in range(shards)]
        cfg = "INIT TraceInit\nNEXT TraceNext\nCHECK_DEADLOCK FALSE\n"
        if const:
            cfg += const
        for i, ch in enumerate(chunks):
            p = os.path.join(d, "t%d.json" % i)
            tlc.write_json(p, ch)
            jobs.append(dict(module=module, cfg=cfg, env={"TRACE_FILE": p}, workers=1,
                             timeout=timeout, heap=heap))
        results = tlc.run_many(jobs)
        rejects = {}
        for ch, r in zip(chunks, results):
            self.states += r.distinct
            self.transitions += r.generated
            miss = r.tuples("MISS")
            if miss:
                raise MachineryError("oracle table entries missing (harness/spec plumbing): %r" % miss[:5])
            if r.distinct != len(ch) + 1 or not r.ok:
                tail = "\n".join(r.out.splitlines()[-40:])
                raise MachineryError("trace validation by %s incomplete (%d states for %d events):\n%s"
                                     % (module, r.distinct, len(ch), tail))
            for t in r.tuples("RJ"):
                rejects[t[1]] = t[2] if len(t) > 2 else "?"
        import shutil
        shutil.rmtree(d, ignore_errors=True)
        self.traces += n - len(rejects)
        self.evaluations += n
        return rejects

    # ------------------------------------------------------------ bookkeeping
    def sample(self, obj, limit=6):
        if len(self.samples) < limit:
            self.samples.append(obj)

    def nontriv(self, key):
        self.nontrivial.add(key)

    def violation(self, call_site, cls, what, replay):
        v = Violation(self.prop, call_site, cls, what, replay)
        self.violations.append(v)
        return v

    # -------------------------------------------------------------- finishing
    def finish(self, level, rule, assumptions, trusted_base, checker_cmd, extra=None):
        known = load_known()
        unknown = []
        hits = []
        printed = set()
        for v in self.violations:
            k = match_known(known, v)
            if k is not None:
                v.known = k
                key = k.get("id")
                hits.append(key)
                if key not in printed:
                    printed.add(key)
                    print("KNOWN-FINDING: property=%s %s" % (self.prop, k.get("what", v.what)))
            else:
                unknown.append(v)
        # de-duplicate unknown violations by (call_site, cls) for reporting; keep all replay files small
        seen = {}
        for v in unknown:
            key = (v.call_site, v.cls)
            if key in seen:
                seen[key]["count"] += 1
                continue
            rp = dict(v.replay)
            rp.update({"property": self.prop, "call_site": v.call_site, "class": v.cls,
                       "what": v.what, "seed": self.seed, "tier": self.tier})
            blob = json.dumps(rp, sort_keys=True)
            h = hashlib.sha256(blob.encode()).hexdigest()[:16]
            dd = os.path.join(VERIF, "replays", self.prop)
            os.makedirs(dd, exist_ok=True)
            path = os.path.join(dd, h + ".json")
            with open(path, "w") as f:
                f.write(blob)
            v.path = path
            seen[key] = {"v": v, "count": 1}
        for key, s in seen.items():
            v = s["v"]
            print("VIOLATION property=%s replay=%s  # %s [%s/%s] x%d" %
                  (self.prop, v.path, v.what, v.call_site, v.cls, s["count"]))
        cov = {
            "states": max(self.states, 0),
            "transitions": max(self.transitions, 0),
            "traces_validated_against_impl": self.traces,
            "samples": self.samples or ["(none)"],
            "evaluations": self.evaluations,
            "distinct_nontrivial": len(self.nontrivial),
            "rule": rule,
            "exhaustive": bool(self.exhaustive),
            "checker_cmd": checker_cmd,
            "trusted_base": trusted_base,
            "bounded_models": self.mc_runs,
            "actions_covered": self.actions_covered,
            "known_findings_hit": sorted(set(h for h in hits if h)),
            "binding_selfcheck": self.binding_selfcheck,
        }
        cov.update(self.notes)
        if extra:
            cov.update(extra)
        ev = {
            "property_id": self.prop, "tier": self.tier, "seed": self.seed, "level": level,
            "coverage": cov, "assumptions": assumptions,
            "wall_s": round(time.time() - self.t0, 2), "violations": len(unknown),
        }
        # development runs against a scratch clone (VERIF_REPO) must not overwrite the evidence of /repo
        evdir = os.path.join(VERIF, "evidence") if REPO == "/repo" else os.path.join(tlc.scratch_root(), "evidence-dev")
        os.makedirs(evdir, exist_ok=True)
        with open(os.path.join(evdir, self.prop + ".json"), "w") as f:
            json.dump(ev, f, indent=1, default=str)
        return 1 if unknown else 0


def load_known():
    try:
        with open(KNOWN) as f:
            return json.load(f)
    except FileNotFoundError:
        return {"open": [], "fixed": []}


def match_known(known, v):
    for k in known.get("open", []):
        if k.get("property") != v.prop:
            continue
        m = k.get("match", {})
        if m.get("call_site") == v.call_site and m.get("class") == v.cls:
            return k
    return None


# ------------------------------------------------------------------ helpers
def cfg_of(name):
    with open(os.path.join(VERIF, "spec", name)) as f:
        return f.read()


def corrupt_event(ev):
    """A copy of ev with one recorded result field changed (binding self-check)."""
    import copy
    c = copy.deepcopy(ev)
    r = c.get("res", {})
    if r.get("ok") and isinstance(r.get("v"), list) and r["v"] and isinstance(r["v"][0], int):
        r["v"][len(r["v"]) // 2] = (r["v"][len(r["v"]) // 2] + 1) % 256
        return c
    if r.get("ok") is False:
        return None
    return None


def binding_selfcheck(ctx, module, events, n=3, mutate=corrupt_event, const=None):
    """Corrupt one recorded field of a few accepted events and require the
    trace specification to reject each corrupted trace."""
    cands = []
    for e in events:
        c = mutate(e)
        if c is not None:
            cands.append(c)
        if len(cands) >= n:
            break
    if not cands:
        if ctx.violations:
            ctx.binding_selfcheck = {"skipped": "no accepted event left to corrupt (violations present)"}
            return
        raise MachineryError("binding self-check: no corruptible event")
    for i, c in enumerate(cands):
        c["id"] = 900000000 + i
    st, tr, tv, evs = ctx.states, ctx.transitions, ctx.traces, ctx.evaluations
    rj = ctx.validate(module, cands, shards=1, const=const)
    ctx.states, ctx.transitions, ctx.traces, ctx.evaluations = st, tr, tv, evs
    if len(rj) != len(cands):
        msg = "binding self-check: corrupted events were accepted by %s: %r" % (
            module, [c["id"] for c in cands if c["id"] not in rj])
        if ctx.violations:      # violations are reported regardless; note the self-check problem
            ctx.binding_selfcheck = {"failed": msg}
            print("WARNING " + msg)
            return
        raise MachineryError(msg)
    ctx.binding_selfcheck = {"corrupted_events": len(cands), "rejected": len(rj)}


def load_replay(path):
    with open(path) as f:
        return json.load(f)


def _mk(args):
    from . import acts
    a, inp, i = args
    return acts.make(a, inp, i)


def source_literals(limit=80):
    """A dictionary taken from the code under test (the classic fuzzing trick): every short string literal of the
    library's modules, with format / percent templates instantiated with small numbers.  Text that the code itself
    treats specially (markers, placeholders, separators, key names) is exactly what a passphrase or mnemonic is never
    expected to contain."""
    import ast
    import glob
    import re
    out = []
    order = ["paper_wallet.py", "base_wallet.py", "bip39.py", "bip85.py", "wallet_utils.py", "helper.py", "keys.py", "bip32.py", "script.py"]
    files = sorted(glob.glob(os.path.join(REPO, "btc_hd_wallet", "*.py")),
                   key=lambda f: (order.index(os.path.basename(f)) if os.path.basename(f) in order else len(order), f))
    for fn in files:
        if fn.endswith(("bip39_wordlist.py", "op.py")):
            continue
        try:
            tree = ast.parse(open(fn, encoding="utf-8").read())
        except Exception:
            continue
        for node in ast.walk(tree):
            if isinstance(node, ast.Constant) and isinstance(node.value, str) and 2 <= len(node.value) <= 24 and "\n" not in node.value:
                out.append(node.value)
            elif isinstance(node, ast.JoinedStr):
                parts = [v.value if isinstance(v, ast.Constant) else "{}" for v in node.values]
                if 2 <= len("".join(parts)) <= 24:
                    out.append("".join(parts))
    seen, res = set(), []
    for t in out:
        variants = [t]
        if "{" in t or "%" in t:
            for k in (0, 1, 2):
                v = re.sub(r"\{[^{}]*\}", str(k), t)
                v = re.sub(r"%[0-9.]*[dsxXr]", str(k), v)
                variants.append(v)
        for v in variants:
            if v not in seen and not v.isalnum():           # plain words are ordinary passphrases anyway
                seen.add(v)
                res.append(v)
    # instantiated templates first (a placeholder scheme shows up as one), then the rest
    ordinary = set("abcdefghijklmnopqrstuvwxyzABCDEFGHIJKLMNOPQRSTUVWXYZ0123456789 /'_.-:,()")
    res.sort(key=lambda v: (0 if any(ch not in ordinary for ch in v) else 1, 0 if any(ch.isdigit() for ch in v) else 1))
    return res[:limit]


def rounds(ctx, gen_inputs, n):
    """n independent draws of a property's input families (the generator's random parts differ per draw, its
    enumerated parts repeat and are dropped): the thorough tier's way of widening every sampled family"""
    out, seen = [], set()
    for _ in range(max(1, n)):
        for a, inp, key in gen_inputs(ctx):
            k = (a, json.dumps(inp, sort_keys=True))
            if k not in seen:
                seen.add(k)
                out.append((a, inp, key))
    ctx.notes["input_rounds"] = max(1, n)
    return out


def build_events(ctx, inputs, start=0, procs=None):
    """inputs: iterable of (act, inp, class-key) -> events (executing the code under test).
    Events are built in worker processes (fork) when there are many; each event is a pure
    function of its input, so the result does not depend on the scheduling."""
    inputs = list(inputs)
    jobs = [(a, inp, start + i) for i, (a, inp, key) in enumerate(inputs)]
    if procs is None:
        procs = 16 if len(jobs) >= 64 else 1
    if procs > 1:
        import multiprocessing as mp
        with mp.get_context("fork").Pool(procs) as pool:
            events = pool.map(_mk, jobs, chunksize=max(1, len(jobs) // (procs * 8)))
    else:
        events = [_mk(j) for j in jobs]
    for ev, (a, inp, key) in zip(events, inputs):
        ctx.keys[ev["id"]] = key
        ctx.nontriv((a,) + tuple(key) + (ev.get("res", {}).get("ok"),))
    return events


def report_rejects(ctx, events, rejects, describe=None, site=None):
    """Turn rejected events into violations (call_site = action or site(ev), class = clause)."""
    byid = {e["id"]: e for e in events}
    for eid, clause in sorted(rejects.items()):
        ev = byid[eid]
        what = describe(ev) if describe else "%s(%s)" % (ev["act"], json.dumps(ev["inp"])[:200])
        r = ev.get("res")
        rp = {"act": ev["act"], "inp": ev["inp"], "clause": clause}
        if ev.get("from_suite") and "o" in ev and r is not None:
            rp["observed_in_suite"] = r          # the outcome seen while the repository's own test ran
            what = "[during the pinned test suite] " + what
        ctx.violation(site(ev, clause) if site else ev["act"], clause,
                      "%s -> %s : %s" % (what, json.dumps(r)[:160], clause), rp)


def std_replay(ctx, path, module, const=None):
    from . import acts
    rp = load_replay(path)
    if "observed_in_suite" in rp and rp["act"] not in ("CkdPriv", "CkdPub", "Addr", "PathParse"):
        from . import suitetrace
        ev = suitetrace.observed_event(rp["act"], rp["inp"], rp["observed_in_suite"], 0)
    else:
        ev = acts.make(rp["act"], rp["inp"], 0)
    rj = ctx.validate(module, [ev], shards=1, const=const)
    if rj:
        print("VIOLATION property=%s replay=%s  # %s: %s" % (ctx.prop, path, rp["act"], rj[0]))
        return 1
    print("replay: event accepted by the specification (res=%s)" % json.dumps(ev.get("res"))[:300])
    return 0


def suite_events(ctx, files, kinds, start_id, limit=None):
    """events recorded while (part of) the repository's own pinned test suite runs (harness/suitetrace.py)"""
    from . import suitetrace
    path = os.path.join(tlc.scratch_dir("suite"), "suite.jsonl")
    open(path, "w").close()
    rc, out = suitetrace.run_suite(files, path, REPO)
    evs = suitetrace.events_from(path, kinds, start_id, limit, ctx.rng)
    ctx.notes["suite_trace"] = {"test_files": list(files), "pytest_exit": rc, "events": len(evs)}
    for e in evs:
        ctx.keys[e["id"]] = ("suite", e["act"])
        ctx.nontriv(("suite", e["act"], e["res"]["ok"]))
    return evs
