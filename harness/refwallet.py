"""Reference BIP32/BIP39/BIP85 walk used ONLY to predict which primitive
input/output pairs the specification will look up, and to record them in the
event's oracle table (refprims.Table).  The specification re-derives every
result from those pairs itself."""
from . import refprims as R

HARD = 2 ** 31

VERSIONS = {
    ("pub", "main", "bip44"): 0x0488B21E, ("pub", "main", "bip49"): 0x049d7cb2, ("pub", "main", "bip84"): 0x04b24746,
    ("prv", "main", "bip44"): 0x0488ADE4, ("prv", "main", "bip49"): 0x049d7878, ("prv", "main", "bip84"): 0x04b2430c,
    ("pub", "test", "bip44"): 0x043587CF, ("pub", "test", "bip49"): 0x044a5262, ("pub", "test", "bip84"): 0x045f1cf6,
    ("prv", "test", "bip44"): 0x04358394, ("prv", "test", "bip49"): 0x044a4e28, ("prv", "test", "bip84"): 0x045f18bc,
}


class RNode:
    def __init__(self, k, K, c, depth, idx, pfp, net):
        self.k, self.K, self.c, self.depth, self.idx, self.pfp, self.net = k, K, c, depth, idx, pfp, net

    def json(self):
        d = {"c": list(self.c), "depth": self.depth, "idx": list(self.idx.to_bytes(4, "big")),
             "pfp": list(self.pfp), "net": self.net, "prv": self.k is not None, "K": list(self.K)}
        if self.k is not None:
            d["k"] = list(self.k)
        return d


def _hm(tab, prf, key, msg):
    """record the HMAC entry; `prf` (key,msg)->64 bytes or None overrides the value (chosen-PRF runs)"""
    out = prf(key, msg) if prf else None
    if out is None:
        return tab.hmac512(key, msg)
    tab._add("hmac512", [list(key), list(msg)], list(out), (bytes(key), bytes(msg)))
    return out


def master(tab, seed, net, prf=None):
    I = _hm(tab, prf, b"Bitcoin seed", seed)
    il = int.from_bytes(I[:32], "big")
    if il == 0 or il >= R.N:
        return None
    K = tab.ptc(I[:32])
    return RNode(I[:32], K, I[32:], 0, 0, b"\x00" * 4, net)


def ckd_priv(tab, n, i, prf=None):
    ib = i.to_bytes(4, "big")
    K = tab.ptc(n.k)
    # both candidate layouts are recorded; the specification picks the one BIP32 prescribes
    hard = _hm(tab, prf, n.c, b"\x00" + n.k + ib)
    norm = _hm(tab, prf, n.c, K + ib)
    I = hard if i >= HARD else norm
    fp = tab.hash160(K)[:4]
    il = int.from_bytes(I[:32], "big")
    if il >= R.N:
        return None
    ki = (il + int.from_bytes(n.k, "big")) % R.N
    if ki == 0:
        return None
    kb = ki.to_bytes(32, "big")
    return RNode(kb, tab.ptc(kb), I[32:], n.depth + 1, i, fp, n.net)


def ckd_pub(tab, n, i, prf=None):
    ib = i.to_bytes(4, "big")
    I = _hm(tab, prf, n.c, n.K + ib)
    fp = tab.hash160(n.K)[:4]
    if i >= HARD:
        return None
    il = int.from_bytes(I[:32], "big")
    if il >= R.N or il == 0:
        return None
    P = tab.ptc(I[:32])
    Ki = tab.ptadd(P, n.K)
    if not Ki:
        return None
    return RNode(None, Ki, I[32:], n.depth + 1, i, fp, n.net)


def ckd(tab, n, i, prf=None):
    return ckd_priv(tab, n, i, prf) if n.k is not None else ckd_pub(tab, n, i, prf)


def derive(tab, n, path, prf=None):
    for i in path:
        if n is None:
            return None
        n = ckd(tab, n, i, prf)
    return n


def payload(n, version, private):
    key = (b"\x00" + n.k) if private else n.K
    pfp = bytes(4) if (n.depth == 0 and n.idx == 0) else n.pfp        # master rule
    return version.to_bytes(4, "big") + bytes([n.depth & 255]) + pfp + n.idx.to_bytes(4, "big") + n.c + key


def ser(tab, n, version, private):
    """records Hash256 of the 78-byte payload; returns the Base58Check string"""
    p = payload(n, version, private)
    tab.hash256(p)
    return R.b58check_enc(p)


def neuter(n):
    return RNode(None, n.K, n.c, n.depth, n.idx, n.pfp, n.net)


def ref_addr(tab, kind, sec, net):
    """records the hash entries the Address spec looks up; returns the address string"""
    test = net == "test"
    h = tab.hash160(sec)
    if kind == "p2pkh":
        pay = bytes([0x6f if test else 0x00]) + h
        tab.hash256(pay)
        return R.b58check_enc(pay)
    if kind == "p2wpkh":
        return None
    if kind == "p2sh_p2wpkh":
        pay = bytes([0xc4 if test else 0x05]) + tab.hash160(b"\x00\x14" + h)
        tab.hash256(pay)
        return R.b58check_enc(pay)
    ws = b"\x51" + bytes([len(sec)]) + sec + b"\x51\xae"
    h256 = tab.sha256(ws)
    if kind == "p2wsh":
        return None
    pay = bytes([0xc4 if test else 0x05]) + tab.hash160(b"\x00\x20" + h256)
    tab.hash256(pay)
    return R.b58check_enc(pay)


BIP85_KEY = b"bip-entropy-from-k"


def bip85_path(app, p, i):
    H = HARD
    return {"mnemonic": [83696968 + H, 39 + H, 0 + H, p + H, i + H], "wif": [83696968 + H, 2 + H, i + H],
            "xprv": [83696968 + H, 32 + H, i + H], "hex": [83696968 + H, 128169 + H, p + H, i + H],
            "pwd": [83696968 + H, 707764 + H, p + H, i + H]}[app]


def ref_bip85(tab, master, app, p, i, prf=None, wordlist=None):
    """record every primitive pair the Bip85 spec will look up; returns (wordtab or None)"""
    if not (0 <= i < HARD) or not isinstance(p, int) or p < 0 or p >= HARD:
        return None
    n = derive(tab, master, bip85_path(app, p, i), prf)
    if n is None:
        return None
    E = _hm(tab, prf, BIP85_KEY, n.k)
    wordtab = None
    if app == "mnemonic" and p in (12, 15, 18, 21, 24):
        ent = E[:p * 4 // 3]
        h = tab.sha256(ent)
        bits = bin(int.from_bytes(ent, "big"))[2:].zfill(len(ent) * 8) + bin(int.from_bytes(h, "big"))[2:].zfill(256)[:len(ent) // 4]
        idx = [int(bits[j:j + 11], 2) for j in range(0, len(bits), 11)]
        wordtab = [{"i": j, "w": [ord(c) for c in str(wordlist[j])]} for j in sorted(set(idx))]
    elif app == "wif":
        tab.hash256(b"\x80" + E[:32] + b"\x01")
    elif app == "xprv":
        k = E[32:]
        if 0 < int.from_bytes(k, "big") < R.N:
            rn = RNode(k, tab.ptc(k), E[:32], 0, 0, bytes(4), "main")
            ser(tab, rn, VERSIONS[("prv", "main", "bip44")], True)
    return wordtab
