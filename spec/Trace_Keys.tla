----------------------------- MODULE Trace_Keys -----------------------------
(***************************************************************************)
(* Trace validation at REAL SCALE for the key layer: BIP32 derivation      *)
(* (C01, C02, C18), extended-key serialisation (C07), key encodings (C09). *)
(* The BIP32 operators are the ones of Bip32.tla, instantiated with 32-byte*)
(* scalars, the secp256k1 order, and the primitives bound to the oracle    *)
(* table recorded with each event (Oracle.tla).                            *)
(***************************************************************************)
EXTENDS Bytes, Base58, ExtKey, KeyCodec, Oracle, Json, IOUtils, TLC

K32 == INSTANCE Bip32 WITH KeyLen <- 32, IdxLen <- 4, HardMin <- 128, N <- SecpN,
                           Hmac <- HmacSha512, PtC <- PtC, PtAdd <- PtAddC, H160 <- Hash160

Trace == JsonDeserialize(IOEnv.TRACE_FILE)

VARIABLE l

Raised(e) == ~e.res.ok

---------------------------------------------------------------------------
\* nodes from event JSON: only the defining fields are taken from the event,
\* the public key of a private node is re-derived through the oracle
InPrv(e, j) == K32!PrvNode(e, j.k, j.c, j.depth, j.idx, j.pfp, j.net)
InPub(j) == K32!PubNode(j.K, j.c, j.depth, j.idx, j.pfp, j.net)
InNode(e, j) == IF j.prv THEN InPrv(e, j) ELSE InPub(j)

DefaultVer(t, net) == Ver(t, net, "bip44")

XprvStr(e, n, ver) == LET p == SerPrv(n, ver) IN EncCheck(p, Hash256(e, p))
XpubStr(e, n, ver) == LET p == SerPub(n, ver) IN EncCheck(p, Hash256(e, p))

\* compare an expected node n with the projected node g of the implementation
NodeDiff(n, g) ==
  IF g.prv # n.prv THEN "node-type"
  ELSE IF n.prv /\ Len(g.k) # 32 THEN "key-not-32-bytes"
  ELSE IF n.prv /\ g.k # n.k THEN "key"
  ELSE IF g.K # n.K THEN "public-key"
  ELSE IF g.c # n.c THEN "chain-code"
  ELSE IF g.depth # n.depth THEN "depth"
  ELSE IF g.idx # n.idx THEN "child-number"
  ELSE IF g.pfp # n.pfp THEN "parent-fingerprint"
  ELSE IF g.net # n.net THEN "network"
  ELSE "same"

\* strings printed for a derived node (skipped beyond the serialisable depth)
StringsDiff(e, n, v) ==
  IF n.depth > 255 THEN "same"
  ELSE IF n.prv /\ v.xprv # XprvStr(e, n, DefaultVer("prv", n.net)) THEN "xprv-string"
  ELSE IF v.xpub # XpubStr(e, n, DefaultVer("pub", n.net)) THEN "xpub-string"
  ELSE "same"

\* the PRF query the implementation was seen to make (wrapper at hmac level)
QueryOk(e, key, msg) ==
  Len(e.q) = 0 \/ \E j \in 1..Len(e.q) : e.q[j].key = key /\ e.q[j].msg = msg

Judge(e, r, queryKey, queryMsg, tag) ==
  \* r: outcome record of the specification
  IF r.out = "unjudged" THEN "ok"
  ELSE IF r.out # "ok"
       THEN IF ~Raised(e) THEN tag \o "-returned-node-for-" \o r.why
            ELSE IF "par_after" \in DOMAIN e /\ e.par_after # e.par_before THEN tag \o "-failed-attempt-changed-parent"
            ELSE "ok"
  ELSE IF Raised(e) THEN tag \o "-raised-on-valid"
  ELSE IF ~QueryOk(e, queryKey, queryMsg) THEN tag \o "-prf-query-layout"
  ELSE LET d == NodeDiff(r.node, e.res.v.node)
       IN IF d # "same" THEN tag \o "-" \o d
          ELSE LET sd == StringsDiff(e, r.node, e.res.v)
               IN IF sd # "same" THEN tag \o "-" \o sd ELSE "ok"

V_Master(e) ==               \* e.inp = [seed, net]
  Judge(e, K32!Master(e, e.inp.seed, e.inp.net), K32!SeedKey, e.inp.seed, "master")

V_CkdPriv(e) ==              \* e.inp = [par, i]
  LET par == InPrv(e, e.inp.par)
  IN Judge(e, K32!CKDpriv(e, par, e.inp.i), par.c, K32!PrivData(e, par, e.inp.i), "ckdpriv")

V_CkdPub(e) ==
  LET par == InPub(e.inp.par)
  IN Judge(e, K32!CKDpub(e, par, e.inp.i), par.c, K32!PubData(par, e.inp.i), "ckdpub")

V_DerivePath(e) ==           \* e.inp = [root, path]
  LET root == InNode(e, e.inp.root)
  IN Judge(e, K32!DerivePath(e, root, e.inp.path), <<>>, <<>>, "derivepath")

\* C02: private derivation then dropping the private part  =  public-only derivation.
\* e.inp = [root (private), path]; e.res.v = [prv: node+strings, pub: node+strings]
V_Agree(e) ==
  LET root == InPrv(e, e.inp.root)
      rp == K32!DerivePath(e, root, e.inp.path)
      ru == K32!DerivePath(e, K32!Neuter(root), e.inp.path)
  IN IF rp.out = "unjudged" \/ ru.out = "unjudged" THEN "ok"
     ELSE IF ru.out # "ok" THEN (IF e.res.ok /\ e.res.v.pub.ok THEN "agree-public-side-returned-node-for-" \o ru.why ELSE "ok")
     ELSE IF ~e.res.ok \/ ~e.res.v.pub.ok \/ ~e.res.v.prv.ok THEN "agree-raised-on-valid"
     ELSE LET d1 == NodeDiff(rp.node, e.res.v.prv.node)
              d2 == NodeDiff(ru.node, e.res.v.pub.node)
          IN IF d1 # "same" THEN "agree-private-" \o d1
             ELSE IF d2 # "same" THEN "agree-public-" \o d2
             ELSE IF K32!Neuter(rp.node) # ru.node THEN "spec-homomorphism-broken"
             ELSE IF e.res.v.pub.xpub # e.res.v.prv.xpub THEN "agree-xpub-strings-differ"
             ELSE IF e.res.v.pub.xpub # XpubStr(e, ru.node, DefaultVer("pub", ru.node.net)) THEN "agree-xpub-string"
             ELSE "ok"

\* C18 fault sequences on SHARED objects: steps derive from the root or from the result
\* of an earlier step; a failed step must leave everything else as it was.
\* e.inp = [root, steps: seq of [from (0 = root, j = result of step j), i]];
\* e.res.v = seq of [ok, node]
V_CkdSeq(e) ==
  LET root == InNode(e, e.inp.root)
      n == Len(e.inp.steps)
      \* spec outcomes, folded left to right
      outs == FoldLeft(LAMBDA acc, j :
                 LET st == e.inp.steps[j]
                     src == IF st.from = 0 THEN K32!Ok(root) ELSE acc[st.from]
                 IN Append(acc, IF src.out # "ok" THEN K32!Unjudged("source-missing")
                                ELSE K32!CKD(e, src.node, st.i)),
                 <<>>, [j \in 1..n |-> j])
      bad == {j \in 1..n :
                LET r == outs[j]  g == e.res.v[j]
                IN /\ r.out # "unjudged"
                   /\ \/ (r.out = "ok" /\ ~g.ok)
                      \/ (r.out # "ok" /\ g.ok)
                      \/ (r.out = "ok" /\ g.ok /\ NodeDiff(r.node, g.node) # "same")}
  IN IF bad = {} THEN "ok"
     ELSE LET j == CHOOSE x \in bad : \A y \in bad : x <= y
              r == outs[j]  g == e.res.v[j]
          IN IF r.out = "ok" /\ ~g.ok THEN "seq-raised-on-valid-step"
             ELSE IF r.out # "ok" THEN "seq-returned-node-for-" \o r.why
             ELSE "seq-" \o NodeDiff(r.node, g.node)

---------------------------------------------------------------------------
Verdict(e) ==
  CASE e.act = "Master" -> V_Master(e)
    [] e.act = "CkdPriv" -> V_CkdPriv(e)
    [] e.act = "CkdPub" -> V_CkdPub(e)
    [] e.act = "DerivePath" -> V_DerivePath(e)
    [] e.act = "Agree" -> V_Agree(e)
    [] e.act = "CkdSeq" -> V_CkdSeq(e)
    [] OTHER -> "unknown-act"

TraceInit == l = 1
TraceNext ==
  /\ l <= Len(Trace)
  /\ LET v == Verdict(Trace[l])
     IN IF v = "ok" THEN TRUE ELSE PrintT(<<"RJ", Trace[l].id, v>>)
  /\ l' = l + 1
=============================================================================
