----------------------------- MODULE Trace_Keys -----------------------------
(***************************************************************************)
(* Trace validation at REAL SCALE for the key layer: BIP32 derivation      *)
(* (C01, C02, C18), extended-key serialisation (C07), key encodings (C09). *)
(* The BIP32 operators are the ones of Bip32.tla, instantiated with 32-byte*)
(* scalars, the secp256k1 order, and the primitives bound to the oracle    *)
(* table recorded with each event (Oracle.tla).                            *)
(***************************************************************************)
EXTENDS Bytes, Base58, ExtKey, KeyCodec, Ripemd, Bip85, Oracle, Json, IOUtils, TLC

K32 == INSTANCE Bip32 WITH KeyLen <- 32, IdxLen <- 4, HardMin <- 128, N <- SecpN,
                           Hmac <- HmacSha512, PtC <- PtC, PtAdd <- PtAddC, H160 <- Hash160

AD == INSTANCE Address WITH Sha <- Sha256, Rip <- Ripemd160, H256 <- Hash256

B39 == INSTANCE Bip39 WITH WordBits <- 11, CsRatio <- 32, EntSizes <- {128, 160, 192, 224, 256},
                         Sha <- Sha256, Nfkd <- NfkdO, Pbkdf2 <- Pbkdf2O

Trace == JsonDeserialize(IOEnv.TRACE_FILE)

VARIABLE l

Raised(e) == ~e.res.ok

---------------------------------------------------------------------------
\* nodes from event JSON: only the defining fields are taken from the event,
\* the public key of a private node is re-derived through the oracle
InPrv(e, j) == K32!PrvNode(e, j.k, j.c, j.depth, j.idx, j.pfp, j.net)
InPub(j) == K32!PubNode(j.K, j.c, j.depth, j.idx, j.pfp, j.net)
InNode(e, j) == IF j.prv THEN InPrv(e, j) ELSE InPub(j)

DefaultVer(t, net) == Ver(t, net, "bip44")

XprvStr(e, n, ver) == LET p == SerPrv(n, ver) IN EncCheck(p, Hash256(e, p))
XpubStr(e, n, ver) == LET p == SerPub(n, ver) IN EncCheck(p, Hash256(e, p))

\* compare an expected node n with the projected node g of the implementation
NodeDiff(n, g) ==
  IF g.prv # n.prv THEN "node-type"
  ELSE IF n.prv /\ Len(g.k) # 32 THEN "key-not-32-bytes"
  ELSE IF n.prv /\ g.k # n.k THEN "key"
  ELSE IF g.K # n.K THEN "public-key"
  ELSE IF g.c # n.c THEN "chain-code"
  ELSE IF g.depth # n.depth THEN "depth"
  ELSE IF g.idx # n.idx THEN "child-number"
  ELSE IF g.pfp # n.pfp THEN "parent-fingerprint"
  ELSE IF g.net # n.net THEN "network"
  ELSE "same"

\* strings printed for a derived node (skipped beyond the serialisable depth)
StringsDiff(e, n, v) ==
  IF n.depth > 255 THEN "same"
  ELSE IF n.prv /\ v.xprv # XprvStr(e, n, DefaultVer("prv", n.net)) THEN "xprv-string"
  ELSE IF v.xpub # XpubStr(e, n, DefaultVer("pub", n.net)) THEN "xpub-string"
  ELSE "same"

\* the PRF query the implementation was seen to make (wrapper at hmac level)
QueryOk(e, key, msg) ==
  Len(e.q) = 0 \/ \E j \in 1..Len(e.q) : e.q[j].key = key /\ e.q[j].msg = msg

Judge(e, r, queryKey, queryMsg, tag) ==
  \* r: outcome record of the specification
  IF r.out = "unjudged" THEN "ok"
  ELSE IF r.out # "ok"
       THEN IF ~Raised(e) THEN tag \o "-returned-node-for-" \o r.why
            ELSE IF "par_after" \in DOMAIN e /\ e.par_after # e.par_before THEN tag \o "-failed-attempt-changed-parent"
            ELSE "ok"
  ELSE IF Raised(e) THEN tag \o "-raised-on-valid"
  ELSE IF ~QueryOk(e, queryKey, queryMsg) THEN tag \o "-prf-query-layout"
  ELSE LET d == NodeDiff(r.node, e.res.v.node)
       IN IF d # "same" THEN tag \o "-" \o d
          ELSE LET sd == StringsDiff(e, r.node, e.res.v)
               IN IF sd # "same" THEN tag \o "-" \o sd ELSE "ok"

V_Master(e) ==               \* e.inp = [seed, net]
  Judge(e, K32!Master(e, e.inp.seed, e.inp.net), K32!SeedKey, e.inp.seed, "master")

V_CkdPriv(e) ==              \* e.inp = [par, i]
  LET par == InPrv(e, e.inp.par)
  IN Judge(e, K32!CKDpriv(e, par, e.inp.i), par.c, K32!PrivData(e, par, e.inp.i), "ckdpriv")

V_CkdPub(e) ==
  LET par == InPub(e.inp.par)
  IN Judge(e, K32!CKDpub(e, par, e.inp.i), par.c, K32!PubData(par, e.inp.i), "ckdpub")

V_DerivePath(e) ==           \* e.inp = [root, path] (+ form = "iterator": the path handed over as a one-shot iterable)
  LET root == InNode(e, e.inp.root)
  IN IF "form" \in DOMAIN e.inp /\ e.inp.form = "iterator" /\ Raised(e) THEN "ok"      \* refusing that argument type is fine
     ELSE Judge(e, K32!DerivePath(e, root, e.inp.path), <<>>, <<>>, "derivepath")

\* C02: private derivation then dropping the private part  =  public-only derivation.
\* e.inp = [root (private), path]; e.res.v = [prv: node+strings, pub: node+strings]
V_Agree(e) ==
  LET root == InPrv(e, e.inp.root)
      rp == K32!DerivePath(e, root, e.inp.path)
      ru == K32!DerivePath(e, K32!Neuter(root), e.inp.path)
  IN IF rp.out = "unjudged" \/ ru.out = "unjudged" THEN "ok"
     ELSE IF ru.out # "ok" THEN (IF e.res.ok /\ e.res.v.pub.ok THEN "agree-public-side-returned-node-for-" \o ru.why ELSE "ok")
     ELSE IF ~e.res.ok \/ ~e.res.v.pub.ok \/ ~e.res.v.prv.ok THEN "agree-raised-on-valid"
     ELSE LET d1 == NodeDiff(rp.node, e.res.v.prv.node)
              d2 == NodeDiff(ru.node, e.res.v.pub.node)
          IN IF d1 # "same" THEN "agree-private-" \o d1
             ELSE IF d2 # "same" THEN "agree-public-" \o d2
             ELSE IF K32!Neuter(rp.node) # ru.node THEN "spec-homomorphism-broken"
             ELSE IF e.res.v.pub.xpub # e.res.v.prv.xpub THEN "agree-xpub-strings-differ"
             ELSE IF e.res.v.pub.xpub # XpubStr(e, ru.node, DefaultVer("pub", ru.node.net)) THEN "agree-xpub-string"
             ELSE "ok"

\* bulk generation: e.inp = [par, start, end (5-byte big-endian lists)]; e.res.v = seq of nodes.
\* The children start..end-1 in order, each the CKD child; if any of them does not exist (hardened from public data,
\* invalid) the call fails.  Indexes are compared as 4-byte strings, counting from start.
Idx4Of(b5) == SubSeq(b5, 2, 5)
RECURSIVE IdxRange(_, _)
IdxRange(a5, n) == IF n = 0 THEN <<>> ELSE <<Idx4Of(a5)>> \o IdxRange(AddC(a5, <<0, 0, 0, 0, 1>>)[2], n - 1)
V_GenChildren(e) ==
  LET par == InNode(e, e.inp.par)
      listed == "idxs" \in DOMAIN e.inp       \* a stepped interval: the indexes range() yields, in that order
      n == IF listed THEN Len(e.inp.idxs) ELSE IF Less(e.inp.start, e.inp.end) THEN ToNat(SubB(e.inp.end, e.inp.start)) ELSE 0
      idxs == IF listed THEN e.inp.idxs ELSE IdxRange(e.inp.start, n)
      outs == [j \in 1..n |-> K32!CKD(e, par, idxs[j])]
  IN IF \E j \in 1..n : outs[j].out = "unjudged" THEN "ok"
     ELSE IF \E j \in 1..n : outs[j].out # "ok"
          THEN (IF Raised(e) THEN "ok" ELSE "genchildren-returned-nodes-although-a-child-does-not-exist")
     ELSE IF Raised(e) THEN "genchildren-raised-on-valid"
     ELSE IF Len(e.res.v) # n THEN "genchildren-count"
     ELSE IF \E j \in 1..n : NodeDiff(outs[j].node, e.res.v[j]) # "same"
          THEN LET j == CHOOSE x \in 1..n : NodeDiff(outs[x].node, e.res.v[x]) # "same" /\ \A y \in 1..(x - 1) : NodeDiff(outs[y].node, e.res.v[y]) = "same"
               IN "genchildren-" \o NodeDiff(outs[j].node, e.res.v[j])
     ELSE "ok"

\* C09: a public node carrying 33 bytes that are not a curve point (x with no square root, x >= p): building the
\* node object may or may not fail, but nothing - extended key, fingerprint, child, address - is ever produced from it
V_BadPointNode(e) ==
  IF SecNorm(e, e.inp.K) # <<>> THEN "ok"             \* a valid point after all: not judged here
  ELSE IF \E j \in 1..Len(e.res.v.probes) : e.res.v.probes[j].ok
       THEN "node-with-non-point-key-yielded-" \o e.res.v.probes[CHOOSE j \in 1..Len(e.res.v.probes) : e.res.v.probes[j].ok].what
       ELSE "ok"

\* C02 refusal clause for public data that was loaded through the private node class
V_MisloadedPub(e) ==
  IF ~IsHardened(e.inp.i) THEN "ok"
  ELSE IF \E j \in 1..Len(e.res.v.probes) : e.res.v.probes[j].ok
       THEN "hardened-child-from-public-data-via-" \o e.res.v.probes[CHOOSE j \in 1..Len(e.res.v.probes) : e.res.v.probes[j].ok].what
       ELSE "ok"

\* C18 fault sequences on SHARED objects: steps derive from the root or from the result
\* of an earlier step; a failed step must leave everything else as it was.
\* e.inp = [root, steps: seq of [from (0 = root, j = result of step j), i]];
\* e.res.v = seq of [ok, node]
V_CkdSeq(e) ==
  LET root == InNode(e, e.inp.root)
      n == Len(e.inp.steps)
      \* spec outcomes, folded left to right
      outs == FoldLeft(LAMBDA acc, j :
                 LET st == e.inp.steps[j]
                     src == IF st.from = 0 THEN K32!Ok(root) ELSE acc[st.from]
                 IN Append(acc, IF src.out # "ok" THEN K32!Unjudged("source-missing")
                                ELSE K32!CKD(e, src.node, st.i)),
                 <<>>, [j \in 1..n |-> j])
      bad == {j \in 1..n :
                LET r == outs[j]  g == e.res.v[j]
                IN /\ r.out # "unjudged"
                   /\ \/ (r.out = "ok" /\ ~g.ok)
                      \/ (r.out # "ok" /\ g.ok)
                      \/ (r.out = "ok" /\ g.ok /\ NodeDiff(r.node, g.node) # "same")}
  IN IF bad = {} THEN "ok"
     ELSE LET j == CHOOSE x \in bad : \A y \in bad : x <= y
              r == outs[j]  g == e.res.v[j]
          IN IF r.out = "ok" /\ ~g.ok THEN "seq-raised-on-valid-step"
             ELSE IF r.out # "ok" THEN "seq-returned-node-for-" \o r.why
             ELSE "seq-" \o NodeDiff(r.node, g.node)

---------------------------------------------------------------------------
\* C07 extended keys
\* decode an emitted 111-character string with the specification's own decoder
DecodeExt(e, str) ==
  LET sh == DecCheckShape(str)
  IN IF ~sh.ok THEN [ok |-> FALSE, why |-> sh.why]
     ELSE IF Take(Hash256(e, sh.body), 4) # sh.sum THEN [ok |-> FALSE, why |-> "checksum"]
     ELSE IF Len(sh.body) # 78 THEN [ok |-> FALSE, why |-> "length"]
     ELSE [ok |-> TRUE, body |-> sh.body]

V_ExtSer(e) ==               \* e.inp = [node, version, kind]
  LET n == InNode(e, e.inp.node)
      pay == IF e.inp.kind = "prv" THEN SerPrv(n, e.inp.version) ELSE SerPub(n, e.inp.version)
      want == EncCheck(pay, Hash256(e, pay))
      hdrOk == n.depth # 0 \/ (IsZero(n.pfp) /\ IsZero(n.idx))
  IN IF Raised(e) /\ ~hdrOk THEN "ok"          \* a node BIP32 does not allow (depth 0, non-zero header): may be refused
     ELSE IF Raised(e) THEN "extser-raised"
     ELSE IF Len(e.res.v) # 111 THEN "extser-not-111-characters"
     ELSE IF e.res.v # want
          THEN \* second direction: decode what was emitted and name the differing field
               LET d == DecodeExt(e, e.res.v)
               IN IF ~d.ok THEN "extser-does-not-decode-" \o d.why
                  ELSE LET f == Fields(d.body)  w == Fields(pay)
                       IN IF f.version # w.version THEN "extser-version"
                          ELSE IF f.depth # w.depth THEN "extser-depth"
                          ELSE IF f.pfp # w.pfp THEN "extser-parent-fingerprint"
                          ELSE IF f.idx # w.idx THEN "extser-child-number"
                          ELSE IF f.c # w.c THEN "extser-chain-code"
                          ELSE "extser-key-data"
     ELSE IF e.inp.kind = "pub" /\ n.prv /\ IsSubSeqOf(n.k, DecodeExt(e, e.res.v).body)
          THEN "extser-public-string-contains-private-scalar"
     ELSE "ok"

\* e.inp = [s (text or bytes), form, asPrv, net]; e.res.v = [node, again (re-serialised string)]
V_ExtParse(e) ==
  LET body == IF e.inp.form = "str" THEN DecodeExt(e, e.inp.s)
              ELSE IF e.inp.form = "stream-offset"        \* the key starts at e.inp.offset of a longer stream
                   THEN [ok |-> Len(e.inp.s) >= e.inp.offset + 78, why |-> "length",
                         body |-> SubSeq(e.inp.s, e.inp.offset + 1, e.inp.offset + 78)]
              ELSE [ok |-> Len(e.inp.s) = 78, body |-> e.inp.s, why |-> "length"]
  IN IF ~body.ok THEN (IF Raised(e) THEN "ok" ELSE "ok")      \* malformed input: C10's business
     ELSE
     LET q == ParsePayload(body.body, e.inp.asPrv, e.inp.net)
         keyOk == IF e.inp.asPrv THEN q.keydata[1] = 0 /\ ValidScalar32(Drop(q.keydata, 1))
                  ELSE SecShape(q.keydata) /\ SecNorm(e, q.keydata) # <<>>
         \* BIP32 (test vector 5): a key at depth 0 has zero parent fingerprint and zero child number; a payload
         \* violating that is not "valid per BIP32" - a parser may refuse it (if it accepts it, the rest applies)
         hdrOk == q.depth # 0 \/ (IsZero(q.pfp) /\ IsZero(q.idx))
     IN IF ~keyOk THEN "ok"        \* not a valid BIP32 payload: outside C07's domain
        ELSE IF Raised(e) /\ ~hdrOk THEN "ok"
        ELSE IF Raised(e) /\ e.inp.form = "rawstream" THEN "ok"      \* a stream type the parser does not take
        ELSE IF Raised(e) THEN "extparse-raised-on-valid"
        ELSE LET want == IF e.inp.asPrv
                         THEN K32!PrvNode(e, Drop(q.keydata, 1), q.c, q.depth, q.idx, q.pfp, q.net)
                         ELSE K32!PubNode(q.keydata, q.c, q.depth, q.idx, q.pfp, q.net)
                 d == NodeDiff(want, e.res.v.node)
                 str == IF e.inp.form = "str" THEN e.inp.s
                        ELSE EncCheck(body.body, Hash256(e, body.body))
             IN IF d # "same" THEN "extparse-" \o d
                ELSE IF e.res.v.version # q.version THEN "extparse-version"
                ELSE IF e.inp.form = "stream-offset" /\ e.res.v.pos # e.inp.offset + 78 THEN "extparse-stream-position"
                ELSE IF e.res.v.again # str /\ (IsMaster(want) => IsZero(q.pfp)) THEN "extparse-reserialise-differs"
                ELSE IF "copies" \in DOMAIN e.res.v
                        /\ \E j \in 1..Len(e.res.v.copies) : e.res.v.copies[j].s # e.res.v.again \/ ~e.res.v.copies[j].equal
                     THEN "extparse-copied-node-differs"
                ELSE "ok"

\* e.inp = [s]; e.res.v = [net, watch_only, node, bip85]
V_Import(e) ==
  LET body == DecodeExt(e, e.inp.s)
  IN IF ~body.ok THEN (IF Raised(e) THEN "ok" ELSE "import-accepted-malformed-string")
     ELSE LET ver == SubSeq(body.body, 1, 4)
              k == ImportKind(ver)
          IN IF ~k.ok THEN (IF Raised(e) THEN "ok" ELSE "import-accepted-unknown-version")
             ELSE LET q == ParsePayload(body.body, k.prv, k.net)
                      keyOk == IF k.prv THEN q.keydata[1] = 0 /\ ValidScalar32(Drop(q.keydata, 1))
                               ELSE SecShape(q.keydata) /\ SecNorm(e, q.keydata) # <<>>
                      hdrOk == q.depth # 0 \/ (IsZero(q.pfp) /\ IsZero(q.idx))
                  IN IF ~keyOk THEN (IF Raised(e) THEN "ok"
                                     \* not a valid payload for this version: refusing is fine; if a wallet comes back all
                                     \* the same, its type is still the VERSION's, never the other one
                                     ELSE IF e.res.v.watch_only # ~k.prv THEN "import-key-type-not-from-version"
                                     ELSE "ok")
                     ELSE IF Raised(e) /\ ~hdrOk THEN "ok"
                     ELSE IF Raised(e) THEN "import-raised-on-valid"
                     ELSE IF e.res.v.net # k.net THEN "import-network-not-from-version"
                     ELSE IF e.res.v.watch_only # ~k.prv THEN "import-key-type-not-from-version"
                     ELSE IF e.res.v.has_bip85 # k.prv THEN "import-bip85-presence"
                     ELSE LET want == IF k.prv
                                      THEN K32!PrvNode(e, Drop(q.keydata, 1), q.c, q.depth, q.idx, q.pfp, q.net)
                                      ELSE K32!PubNode(q.keydata, q.c, q.depth, q.idx, q.pfp, q.net)
                              d == NodeDiff(want, e.res.v.node)
                          IN IF d # "same" THEN "import-" \o d ELSE "ok"

\* the version prefix alone determines key type, network and BIP flavour (and maps back)
\* e.inp = version (4 bytes); e.res.v = [prv, net, bip, back (4 bytes)]
V_VersionParse(e) ==
  LET k == ImportKind(e.inp)
  IN IF ~k.ok THEN (IF Raised(e) THEN "ok" ELSE "version-parse-accepted-unknown-version")
     ELSE IF Raised(e) THEN "version-parse-raised-on-known-version"
     ELSE IF e.res.v.prv # k.prv THEN "version-key-type"
     ELSE IF e.res.v.net # k.net THEN "version-network"
     ELSE IF e.res.v.bip # k.bip THEN "version-bip-flavour"
     ELSE IF e.res.v.back # e.inp THEN "version-does-not-map-back"
     ELSE "ok"

---------------------------------------------------------------------------
\* C09 key encodings
V_PubOf(e) ==                \* e.inp = k (32 bytes, valid)
  IF Raised(e) THEN "pubof-raised"
  ELSE IF e.res.v.k # e.inp THEN "pubof-scalar-changed"
  ELSE IF e.res.v.secc # PtC(e, e.inp) THEN "pubof-compressed-sec"
  ELSE IF e.res.v.secu # PtU(e, e.inp) THEN "pubof-uncompressed-sec"
  ELSE IF e.res.v.parsec # PtC(e, e.inp) THEN "sec-compressed-does-not-parse-back"
  ELSE IF e.res.v.parseu # PtC(e, e.inp) THEN "sec-uncompressed-does-not-parse-back"
  ELSE "ok"

\* e.inp = [form, v]: v is the byte string handed to the constructor, or for the
\* integer forms the big-endian bytes of the integer (minimal, may exceed 32 bytes)
V_PrivCtor(e) ==
  LET v == e.inp.v
      isInt == e.inp.form \in {"int", "from_int"}
      \* integer: value must be in [1, n-1]
      stripped == Drop(v, CountLeading(v, 0))
      intOk == Len(stripped) >= 1 /\ Len(stripped) <= 32
               /\ Less(Zeros(32 - Len(stripped)) \o stripped, SecpN)
      want == IF isInt THEN Zeros(32 - Len(stripped)) \o stripped ELSE v
      ok == IF isInt THEN intOk ELSE ValidScalar32(v)
  IN IF ~ok THEN (IF Raised(e) THEN "ok"
                  ELSE IF isInt THEN "ctor-accepted-out-of-range-integer"
                  ELSE IF Len(v) # 32 THEN "ctor-accepted-wrong-length"
                  ELSE "ctor-accepted-out-of-range-scalar")
     ELSE IF Raised(e) THEN "ctor-raised-on-valid"
     ELSE IF e.res.v.k # want THEN "ctor-scalar"
     ELSE "ok"

V_Wif(e) ==                  \* e.inp = [k, compressed, net]
  LET p == WifPayload(e.inp.k, e.inp.compressed, e.inp.net)
  IN IF Raised(e) THEN "wif-raised"
     ELSE IF e.res.v.wif # EncCheck(p, Hash256(e, p)) THEN "wif-string"
     ELSE IF ~e.res.v.back.ok THEN "wif-does-not-decode-back"
     ELSE IF e.res.v.back.k # e.inp.k THEN "wif-decodes-to-other-key"
     ELSE "ok"

V_FromWif(e) ==              \* e.inp = string
  LET sh == DecCheckShape(e.inp)
  IN IF ~sh.ok \/ Take(Hash256(e, sh.body), 4) # sh.sum
     THEN (IF Raised(e) THEN "ok" ELSE "fromwif-accepted-bad-base58check")
     ELSE IF Len(sh.body) < 1 \/ sh.body[1] \notin {128, 239} THEN "ok"     \* not a WIF version byte: not judged
     ELSE LET r == WifParse(sh.body, 32)
          IN IF ~r.ok \/ ~ValidScalar32(r.k)
             THEN (IF Raised(e) THEN "ok" ELSE "fromwif-accepted-malformed-payload")
             ELSE IF Raised(e) THEN "fromwif-raised-on-valid"
             ELSE IF e.res.v.k # r.k THEN "fromwif-key"
             ELSE "ok"

V_SecParse(e) ==             \* e.inp = candidate bytes
  LET s == e.inp
      hybrid == Len(s) = 65 /\ s[1] \in {6, 7}
      raw64 == Len(s) = 64
  IN IF hybrid \/ raw64 THEN "ok"          \* outside the stated rejection domain
     ELSE IF SecShape(s) /\ SecNorm(e, s) # <<>>
          THEN IF Raised(e) THEN "secparse-raised-on-valid"
               ELSE IF e.res.v.secc # SecNorm(e, s) THEN "secparse-other-point" ELSE "ok"
          ELSE IF Raised(e) THEN "ok"
               ELSE IF ~SecShape(s) THEN "secparse-accepted-bad-prefix-or-length"
               ELSE "secparse-accepted-point-not-on-curve"

---------------------------------------------------------------------------
\* C05 addresses, script templates, HASH160
\* e.inp = [kind, net, K (compressed SEC), via ("wallet" | "pubkey"), compressed]
V_Addr(e) ==
  LET sec == IF e.inp.compressed THEN e.inp.K ELSE Uncompress(e, e.inp.K)
      want == AD!Addr(e, e.inp.kind, sec, e.inp.net)
  IN IF Raised(e) THEN "addr-raised"
     ELSE IF AD!Classify(e, e.res.v) # AD!Expected(e, e.inp.kind, sec, e.inp.net)
          THEN (LET c == AD!Classify(e, e.res.v)  x == AD!Expected(e, e.inp.kind, sec, e.inp.net)
                IN IF c[1] = "unknown" THEN "addr-does-not-decode"
                   ELSE IF c[2] # x[2] THEN "addr-wrong-network"
                   ELSE IF c[1] # x[1] THEN "addr-wrong-version-or-kind"
                   ELSE "addr-wrong-hash")
     ELSE IF e.res.v # want THEN "addr-string"
     ELSE "ok"

\* several requests on ONE key object, in a given order: e.inp = [K, net, steps: seq of [compressed, kind]];
\* e.res.v = seq of strings.  The answer to a request must not depend on the earlier ones.
V_AddrSeq(e) ==
  IF Raised(e) THEN "addrseq-raised"
  ELSE LET want(j) == AD!Addr(e, e.inp.steps[j].kind,
                              IF e.inp.steps[j].compressed THEN e.inp.K ELSE Uncompress(e, e.inp.K), e.inp.net)
           bad == {j \in 1..Len(e.inp.steps) : e.res.v[j] # want(j)}
       IN IF bad = {} THEN "ok" ELSE "addrseq-answer-depends-on-earlier-requests-or-wrong"

\* e.inp = [tpl, h]; e.res.v = raw bytes
V_ScriptTpl(e) ==
  LET want == CASE e.inp.tpl = "p2pkh" -> AD!ScriptP2PKH(e.inp.h)
                [] e.inp.tpl = "p2sh" -> AD!ScriptP2SH(e.inp.h)
                [] e.inp.tpl = "p2wpkh" -> AD!ScriptP2WPKH(e.inp.h)
                [] e.inp.tpl = "p2wsh" -> AD!ScriptP2WSH(e.inp.h)
  IN IF Raised(e) THEN "script-template-raised"
     ELSE IF e.res.v # want THEN "script-template-" \o e.inp.tpl
     ELSE "ok"

\* e.inp = message; e.res.v = [h160, rip (of the message itself)], e.calls = observed compress calls
V_Hash(e) ==
  IF Raised(e) THEN "hash-raised"
  ELSE IF e.res.v.rip # Ripemd160(e, e.inp) THEN "ripemd160-value"
  ELSE IF e.res.v.h160 # Ripemd160(e, Sha256(e, e.inp)) THEN "hash160-value"
  ELSE IF Len(e.calls) = 0 THEN "ok"
  ELSE LET sv == ShellVerdict(e.inp, e.calls, e.res.v.rip)
       IN IF sv = "ok" THEN "ok" ELSE "ripemd-shell-" \o sv

---------------------------------------------------------------------------
\* C04 sentences, C03 seeds and wallet constructors
\* SHA-256 of BIP39's english.txt (2048 words, each followed by a newline)
EnglishDigest == <<47,94,237,83,164,114,123,75,248,136,13,143,63,25,158,252,
                   144,229,133,3,100,109,159,248,239,243,162,237,59,36,219,218>>

V_Mnemonic(e) ==             \* e.inp = [hex]; e.res.v = [idx]
  LET hp == B39!HexParse(e.inp.hex)
      s == B39!Sentence(e, hp.bytes)
  IN IF hp.kind = "bad" THEN (IF Raised(e) THEN "ok" ELSE "mnemonic-from-malformed-hex")
     ELSE IF hp.kind = "spaced"
          THEN IF Raised(e) THEN "ok"
               ELSE IF s.ok /\ e.res.v.idx = s.idx THEN "ok"
               ELSE "mnemonic-from-whitespace-hex-loses-or-invents-bits"
     ELSE IF ~s.ok THEN (IF Raised(e) THEN "ok" ELSE "mnemonic-for-illegal-entropy-size")
     ELSE IF Raised(e) THEN "mnemonic-raised-on-legal-entropy"
     ELSE IF Len(e.res.v.idx) # B39!WordCount(hp.bytes) THEN "mnemonic-word-count"
     ELSE IF \E i \in 1..Len(e.res.v.idx) : e.res.v.idx[i] < 0 THEN "mnemonic-word-not-in-list"
     ELSE IF e.res.v.idx # s.idx
          THEN LET d == B39!Decode(e.res.v.idx)
               IN IF d.ent # hp.bytes THEN "mnemonic-entropy-bits" ELSE "mnemonic-checksum-bits"
     ELSE "ok"

LexLess(a, b) ==   \* strict lexicographic order on code-point sequences
  \E n \in 0..Min2(Len(a), Len(b)) :
     /\ SubSeq(a, 1, n) = SubSeq(b, 1, n)
     /\ (n = Len(a) /\ n < Len(b)) \/ (n < Len(a) /\ n < Len(b) /\ a[n + 1] < b[n + 1])

V_WordList(e) ==             \* e.words = the embedded list
  LET w == e.words
  IN IF Len(w) # 2048 THEN "wordlist-size"
     ELSE IF \E i \in 1..2047 : ~LexLess(w[i], w[i + 1]) THEN "wordlist-order"
     ELSE IF \E i \in 1..2047 : Take(w[i], 4) = Take(w[i + 1], 4) THEN "wordlist-prefix-not-unique"
     ELSE IF Sha256(e, Flatten([i \in 1..2048 |-> w[i] \o <<10>>])) # EnglishDigest THEN "wordlist-digest"
     ELSE "ok"

V_Seed(e) ==                 \* e.inp = [m, p]
  IF Raised(e) THEN "seed-raised"
  ELSE IF e.res.v # B39!Seed(e, e.inp.m, e.inp.p) THEN "seed-value"
  ELSE "ok"

\* words of an index sequence, looked up in the table shipped with the event
\* (entries of the embedded list; the list itself is pinned by V_WordList)
WordOf(e, i) == e.wordtab[CHOOSE j \in 1..Len(e.wordtab) : e.wordtab[j].i = i].w

\* e.inp = [route, net, ...]; e.res.v = [node, xprv, mnemonic, password]
V_Construct(e) ==
  LET r == e.inp.route
      fromText(m, p) == K32!Master(e, B39!Seed(e, m, p), e.inp.net)
      exp ==
        CASE r = "mnemonic" -> fromText(e.inp.m, e.inp.p)
          [] r = "entropy" ->
               LET hp == B39!HexParse(e.inp.hex)
                   s == B39!Sentence(e, hp.bytes)
               IN IF hp.kind # "clean" \/ ~s.ok THEN K32!Invalid("illegal-entropy")
                  ELSE fromText(B39!JoinWords([i \in 1..Len(s.idx) |-> WordOf(e, s.idx[i])]), e.inp.p)
          [] r \in {"seed_hex", "seed_bytes"} -> K32!Master(e, e.inp.seed, e.inp.net)
  IN IF exp.out # "ok" THEN (IF Raised(e) THEN "ok" ELSE "construct-wallet-from-" \o exp.why)
     ELSE IF Raised(e) THEN "construct-raised-on-valid"
     ELSE LET d == NodeDiff(exp.node, e.res.v.node)
          IN IF d # "same" THEN "construct-" \o r \o "-" \o d
             ELSE IF e.res.v.xprv # XprvStr(e, exp.node, DefaultVer("prv", e.inp.net)) THEN "construct-xprv-string"
             ELSE IF e.res.v.wallet_net # e.inp.net THEN "construct-wallet-network"
             ELSE "ok"

---------------------------------------------------------------------------
\* C12 BIP85 (and the BIP85 clause of C18 under a substituted PRF)
\* value of an application as a code-point string: [out, str, why]
Bip85Value(e, master, app, p, ix) ==
  LET po == PathOf(app, p, ix)
  IN IF ~po.ok THEN [out |-> "reject", str |-> <<>>, why |-> "parameter-or-index-out-of-range"]
     ELSE
     LET d == K32!DerivePath(e, master, po.path)
     IN IF d.out # "ok" THEN [out |-> "invalid", str |-> <<>>, why |-> d.why]
        ELSE
        LET E == HmacSha512(e, EntropyKey, d.node.k)
        IN CASE app = "mnemonic" ->
                  LET s == B39!Sentence(e, Take(E, Width(app, p)))
                  IN [out |-> "ok", why |-> "ok",
                      str |-> B39!JoinWords([i \in 1..Len(s.idx) |-> WordOf(e, s.idx[i])])]
             [] app = "wif" ->
                  IF ~ValidScalar32(Take(E, 32)) THEN [out |-> "invalid", str |-> <<>>, why |-> "wif-secret-out-of-range"]
                  ELSE LET pl == WifPayload(Take(E, 32), TRUE, "main")
                       IN [out |-> "ok", why |-> "ok", str |-> EncCheck(pl, Hash256(e, pl))]
             [] app = "xprv" ->
                  IF ~ValidScalar32(Drop(E, 32)) THEN [out |-> "invalid", str |-> <<>>, why |-> "xprv-secret-out-of-range"]
                  ELSE LET n == [prv |-> TRUE, k |-> Drop(E, 32), c |-> Take(E, 32), depth |-> 0,
                                 idx |-> Zeros(4), pfp |-> Zeros(4), net |-> "main"]
                       IN [out |-> "ok", why |-> "ok", str |-> XprvStr(e, n, Ver("prv", "main", "bip44"))]
             [] app = "hex" -> [out |-> "ok", why |-> "ok", str |-> Hex(Take(E, p))]
             [] app = "pwd" -> [out |-> "ok", why |-> "ok", str |-> Take(Base64(E), p)]

V_Bip85(e) ==                \* e.inp = [master, app, p, ix]
  LET r == Bip85Value(e, InPrv(e, e.inp.master), e.inp.app, e.inp.p, e.inp.ix)
  IN IF r.out # "ok" THEN (IF Raised(e) THEN "ok" ELSE "bip85-" \o e.inp.app \o "-value-for-" \o r.why)
     ELSE IF Raised(e) THEN "bip85-" \o e.inp.app \o "-raised-on-valid"
     ELSE IF e.res.v # r.str THEN "bip85-" \o e.inp.app \o "-value"
     ELSE "ok"

---------------------------------------------------------------------------
\* network / secrecy classification of an emitted string by DECODING it
\* -> [kind, net]; kind in {"address", "wif", "extpub", "extprv", "unknown"}
ClassOf(e, str) ==
  LET sh == DecCheckShape(str)
      unknown == [kind |-> "unknown", net |-> "none"]
  IN IF sh.ok /\ Take(Hash256(e, sh.body), 4) = sh.sum
     THEN LET b == sh.body  n == Len(sh.body)
          IN IF n = 21 /\ b[1] \in {0, 5} THEN [kind |-> "address", net |-> "main"]
             ELSE IF n = 21 /\ b[1] \in {111, 196} THEN [kind |-> "address", net |-> "test"]
             ELSE IF n \in {33, 34} /\ b[1] = 128 THEN [kind |-> "wif", net |-> "main"]
             ELSE IF n \in {33, 34} /\ b[1] = 239 THEN [kind |-> "wif", net |-> "test"]
             ELSE IF n = 78 /\ KnownVersion(SubSeq(b, 1, 4))
                  THEN LET t == TripleOf(SubSeq(b, 1, 4))
                       IN [kind |-> IF t[1] = "prv" THEN "extprv" ELSE "extpub", net |-> t[2]]
             ELSE IF n = 78 /\ b[46] = 0 THEN [kind |-> "extprv", net |-> "none"]
             ELSE unknown
     ELSE LET c == AD!Classify(e, str)
          IN IF c[1] \in {"w0", "w1+"} THEN [kind |-> "address", net |-> c[2]] ELSE unknown

\* maximal runs of Base58 characters inside a string (a secret may be EMBEDDED in a longer string,
\* e.g. an output descriptor), restricted to the lengths of WIF and extended-key strings
B58Runs(str) ==
  LET r == FoldLeft(LAMBDA acc, c : IF InAlphabet(c) THEN <<acc[1], Append(acc[2], c)>>
                                    ELSE <<IF Len(acc[2]) \in {51, 52, 111} THEN acc[1] \cup {acc[2]} ELSE acc[1], <<>>>>,
                    <<{}, <<>>>>, str)
  IN IF Len(r[2]) \in {51, 52, 111} THEN r[1] \cup {r[2]} ELSE r[1]
\* does the string, or a Base58 run inside it, decode to a private-key encoding?
HidesPrivateKey(e, str) ==
  \/ ClassOf(e, str).kind \in {"wif", "extprv"}
  \/ \E r \in B58Runs(str) : r # str /\ ClassOf(e, r).kind \in {"wif", "extprv"}

\* coin type of a BIP44-shaped path string m/purpose'/coin'/...: "main" (0'), "test" (1'), "none"
PathNet(str) ==
  LET p == Parse(str)
  IN IF p.kind # "ok" \/ Len(p.list) < 2 THEN "none"
     ELSE IF p.list[1] \notin {HNum(<<4,4>>), HNum(<<4,9>>), HNum(<<8,4>>)} THEN "none"
     ELSE IF p.list[2] = HSmall(0) THEN "main" ELSE IF p.list[2] = HSmall(1) THEN "test" ELSE "other"

\* C16: e.inp = [net]; e.leaves = seq of [role, s]; roles: "addr", "wif", "pub", "prv", "path", "other"
V_Emit(e) ==
  LET bad == {j \in 1..Len(e.leaves) :
                LET lf == e.leaves[j]
                    c == ClassOf(e, lf.s)
                IN \/ (lf.role \in {"addr", "wif", "pub", "prv"} /\ c.net # e.inp.net)
                   \/ (lf.role = "addr" /\ c.kind # "address")
                   \/ (lf.role = "wif" /\ c.kind # "wif")
                   \/ (lf.role = "pub" /\ c.kind # "extpub")
                   \/ (lf.role = "prv" /\ c.kind # "extprv")
                   \/ (lf.role = "path" /\ PathNet(lf.s) \notin {"none", e.inp.net})
                   \/ (lf.role = "other" /\ c.kind # "unknown" /\ c.net \notin {"none", e.inp.net})}
  IN IF Raised(e) THEN "emit-raised"
     ELSE IF bad = {} THEN "ok"
     ELSE LET j == CHOOSE x \in bad : \A y \in bad : x <= y
              lf == e.leaves[j]  c == ClassOf(e, lf.s)
          IN IF lf.role = "path" THEN "emit-path-coin-type-of-other-network"
             ELSE IF c.kind = "unknown" THEN "emit-" \o lf.role \o "-does-not-decode"
             ELSE IF c.net # e.inp.net THEN "emit-" \o lf.role \o "-carries-other-network"
             ELSE "emit-" \o lf.role \o "-is-a-" \o c.kind

\* C14: e.inp = [root (private), export (path), version, sub (normal path)];
\* e.res.v = [net, watch_only, has_bip85, node, addrs (5 strings in Kinds order), extprv_none, priv (seq of outcomes)]
KindSeq == <<"p2pkh", "p2wpkh", "p2sh_p2wpkh", "p2wsh", "p2sh_p2wsh">>
V_Watch(e) ==
  LET root == InPrv(e, e.inp.root)
      x == K32!DerivePath(e, root, e.inp.export)
      \* route "wallet": the key was exported through the full wallet's own node_extended_keys(); whatever
      \* flavour it chose, the network must be the full wallet's
      k == IF e.inp.route = "wallet" THEN [ok |-> TRUE, prv |-> FALSE, net |-> root.net, bip |-> "any"]
           ELSE ImportKind(e.inp.version)
  IN IF x.out # "ok" \/ ~k.ok \/ k.prv THEN "ok"
     ELSE
     LET wroot == [K32!Neuter(x.node) EXCEPT !.net = k.net]
         n == K32!DerivePath(e, wroot, e.inp.sub)
         full == K32!DerivePath(e, x.node, e.inp.sub)
     IN IF Raised(e) THEN "watch-raised"
        ELSE IF e.res.v.net # k.net THEN "watch-network-not-from-version"
        ELSE IF ~e.res.v.watch_only THEN "watch-not-reported-watch-only"
        ELSE IF e.res.v.has_bip85 THEN "watch-offers-bip85"
        ELSE IF \E j \in 1..Len(e.res.v.priv) : e.res.v.priv[j].leak THEN
               "watch-private-data-from-" \o e.res.v.priv[CHOOSE j \in 1..Len(e.res.v.priv) : e.res.v.priv[j].leak].what
        ELSE IF n.out # "ok" THEN "ok"
        ELSE IF NodeDiff(n.node, e.res.v.node) # "same" THEN "watch-" \o NodeDiff(n.node, e.res.v.node)
        ELSE IF K32!Neuter(full.node) # [n.node EXCEPT !.net = full.node.net] THEN "spec-watch-disagrees-with-full"
        ELSE IF \E j \in 1..5 : e.res.v.addrs[j] # AD!Addr(e, KindSeq[j], n.node.K, k.net)
             THEN "watch-address-" \o KindSeq[CHOOSE j \in 1..5 : e.res.v.addrs[j] # AD!Addr(e, KindSeq[j], n.node.K, k.net)]
        ELSE "ok"

---------------------------------------------------------------------------
\* C06 paper-wallet records
PurposeNum(b) == CASE b = "bip44" -> 44 [] b = "bip49" -> 49 [] b = "bip84" -> 84
PurposeKind(b) == CASE b = "bip44" -> "p2pkh" [] b = "bip49" -> "p2sh_p2wpkh" [] b = "bip84" -> "p2wpkh"
CoinOf(net) == IF net = "test" THEN 1 ELSE 0
UpperHexDigit(n) == IF n < 10 THEN 48 + n ELSE 55 + n
UpperHex(bs) == Flatten([i \in 1..Len(bs) |-> <<UpperHexDigit(bs[i] \div 16), UpperHexDigit(bs[i] % 16)>>])
WifStr(e, k, net) == LET pl == WifPayload(k, TRUE, net) IN EncCheck(pl, Hash256(e, pl))

\* expected block of one purpose: [ok, path, pub, prv, rows]
ExpBlock(e, master, b, net, account, start, end) ==
  LET apath == <<HSmall(PurposeNum(b)), HSmall(CoinOf(net)), HSmall(account)>>
      acct == K32!DerivePath(e, master, apath)
      chain == K32!DerivePath(e, master, apath \o <<Zeros(4)>>)
      \* start / end are 5-byte big-endian numbers (2^31 does not fit a TLC integer); at most 32 rows per event (the driver never asks for more)
      cand(j) == AddC(start, FromNat(j - 1, 5))[2]
      nrows == Cardinality({j \in 1..32 : Less(cand(j), end)})
      rowOf(j) == LET i4 == Drop(cand(j), 1)
                      c == K32!CKD(e, chain.node, i4)
                  IN << Format(TRUE, apath \o <<Zeros(4), i4>>), AD!Addr(e, PurposeKind(b), c.node.K, net),
                        Hex(c.node.K), WifStr(e, c.node.k, net) >>
  IN [path |-> Format(TRUE, apath),
      pub |-> XpubStr(e, acct.node, Ver("pub", net, b)),
      prv |-> XprvStr(e, acct.node, Ver("prv", net, b)),
      rows |-> [j \in 1..nrows |-> rowOf(j)]]

BlockDiff(want, got, name) ==
  IF got.path # want.path THEN name \o "-account-path"
  ELSE IF got.pub # want.pub THEN name \o "-account-extended-public-key"
  ELSE IF got.prv # want.prv THEN name \o "-account-extended-private-key"
  ELSE IF Len(got.rows) # Len(want.rows) THEN name \o "-number-of-rows"
  ELSE IF \E j \in 1..Len(want.rows) : got.rows[j] # want.rows[j]
       THEN LET j == CHOOSE x \in 1..Len(want.rows) : got.rows[x] # want.rows[x] /\ \A y \in 1..(x-1) : got.rows[y] = want.rows[y]
                g == got.rows[j]  w == want.rows[j]
            IN IF Len(g) # 4 THEN name \o "-row-shape"
               ELSE IF g[1] # w[1] THEN name \o "-row-path"
               ELSE IF g[2] # w[2] THEN name \o "-row-address"
               ELSE IF g[3] # w[3] THEN name \o "-row-sec"
               ELSE name \o "-row-wif"
  ELSE "same"

\* the wallet's master node, derived by the specification from the source secret of the event
MasterFromInp(e) ==
  IF "import" \in DOMAIN e.inp
  THEN \* a wallet imported from a (master-level) extended private key of any flavour: the key IS the master
       LET q == ParsePayload(DecodeExt(e, e.inp.import).body, TRUE, e.inp.net)
       IN K32!PrvNode(e, Drop(q.keydata, 1), q.c, q.depth, q.idx, q.pfp, q.net)
  ELSE LET seed == IF "seed" \in DOMAIN e.inp THEN e.inp.seed ELSE B39!Seed(e, e.inp.mnemonic, e.inp.password)
       IN K32!Master(e, seed, e.inp.net).node

\* e.inp = [mnemonic, password | seed, net, account, start, end]; e.res.v = [mnemonic, password, bip44, bip49, bip84]
V_Generate(e) ==
  LET m == MasterFromInp(e)
      d(b) == BlockDiff(ExpBlock(e, m, b, e.inp.net, e.inp.account, e.inp.start, e.inp.end), e.res.v[b], b)
  IN IF Raised(e) THEN "generate-raised"
     ELSE IF e.res.v.mnemonic # e.inp.mnemonic \/ e.res.v.password # e.inp.password THEN "generate-master-block-not-echoed"
     ELSE IF d("bip44") # "same" THEN "generate-" \o d("bip44")
     ELSE IF d("bip49") # "same" THEN "generate-" \o d("bip49")
     ELSE IF d("bip84") # "same" THEN "generate-" \o d("bip84")
     ELSE IF "jsonbad" \in DOMAIN e THEN "generate-json-rendering-not-json-or-of-another-shape"
     ELSE IF "jsonfile" \in DOMAIN e /\ JsonDeserialize(e.jsonfile) # e.tree THEN "generate-json-does-not-parse-back"
     ELSE "ok"

\* a long interval in one call: e.inp = [net, account, start, end (5-byte lists, below 2^31)]; e.res.v[b] = seq of row paths.
\* Exactly one row per index, in order (the rows' contents are judged by Generate on short intervals).
V_GenerateOrder(e) ==
  LET st == ToNat(e.inp.start)  en == ToNat(e.inp.end)
      n == IF en > st THEN en - st ELSE 0
      bad(b) == LET apath == <<HSmall(PurposeNum(b)), HSmall(CoinOf(e.inp.net)), HSmall(e.inp.account)>>
                    rows == e.res.v[b]
                IN Len(rows) # n \/ \E j \in 1..n : rows[j] # Format(TRUE, apath \o <<Zeros(4), FromNat(st + j - 1, 4)>>)
  IN IF Raised(e) THEN "generate-raised"
     ELSE IF bad("bip44") THEN "generate-bip44-rows-not-one-per-index-in-order"
     ELSE IF bad("bip49") THEN "generate-bip49-rows-not-one-per-index-in-order"
     ELSE IF bad("bip84") THEN "generate-bip84-rows-not-one-per-index-in-order"
     ELSE "ok"

\* e.inp = [master, net]; e.res.v = [xpub, fp]
V_Wasabi(e) ==
  LET m == MasterFromInp(e)
      n == K32!DerivePath(e, m, <<HSmall(84), HSmall(0), HSmall(0)>>)
  IN IF Raised(e) THEN "wasabi-raised"
     ELSE IF e.res.v.xpub # XpubStr(e, n.node, DefaultVer("pub", e.inp.net)) THEN "wasabi-extpubkey"
     ELSE IF e.res.v.fp # UpperHex(K32!Fingerprint(e, m.K)) THEN "wasabi-master-fingerprint"
     ELSE "ok"

---------------------------------------------------------------------------
\* C15 paranoia mode.  e.full / e.filt: leaves [ptr, role, s] of the unfiltered / filtered output
Tokens(s) == Split(s, 32)
SecretRoles == {"mnemonic", "password", "bip85", "prv", "wif"}
V_Paranoia(e) ==
  LET secrets == {e.full[j].s : j \in {x \in 1..Len(e.full) :
                     e.full[x].role \in SecretRoles \/ ClassOf(e, e.full[x].s).kind \in {"wif", "extprv"}}}
      nonEmptySecrets == {x \in secrets : Len(x) > 0}
      words == IF "words" \in DOMAIN e THEN {e.words[j] : j \in 1..Len(e.words)} ELSE {}
      looksMnemonic(s) == LET t == Tokens(s) IN Len(t) >= 12 /\ \A j \in 1..Len(t) : t[j] \in words
      bad == {j \in 1..Len(e.filt) :
                LET s == e.filt[j].s
                IN \/ HidesPrivateKey(e, s)
                   \/ looksMnemonic(s)
                   \/ s \in nonEmptySecrets
                   \* substring test for secrets long enough not to occur in public text by coincidence
                   \/ \E x \in nonEmptySecrets : Len(x) >= 8 /\ IsSubSeqOf(x, s)}
      pubFull == {<<e.full[j].ptr, e.full[j].s>> : j \in {x \in 1..Len(e.full) : e.full[x].role \in {"path", "addr", "sec", "pub"}}}
      \* (the pseudo-leaf "/stderr" - what a command-line run wrote to standard error - is searched for secrets like any
      \* other string, but a harmless message there is not "extra data" of the document)
      StderrPtr == <<47, 115, 116, 100, 101, 114, 114>>
      pubFilt == {<<e.filt[j].ptr, e.filt[j].s>> : j \in {x \in 1..Len(e.filt) : e.filt[x].ptr # StderrPtr}}
  IN IF Raised(e) THEN "paranoia-raised"
     ELSE IF bad # {} THEN
          LET j == CHOOSE x \in bad : \A y \in bad : x <= y
              s == e.filt[j].s
          IN IF ClassOf(e, s).kind = "wif" THEN "paranoia-output-contains-wif"
             ELSE IF ClassOf(e, s).kind = "extprv" THEN "paranoia-output-contains-extended-private-key"
             ELSE IF HidesPrivateKey(e, s) THEN "paranoia-output-embeds-a-private-key-encoding"
             ELSE IF looksMnemonic(s) THEN "paranoia-output-contains-mnemonic"
             ELSE "paranoia-output-contains-secret-string"
     ELSE IF pubFilt # pubFull THEN
          (IF pubFull \ pubFilt # {} THEN "paranoia-public-data-missing-or-changed" ELSE "paranoia-extra-data")
     ELSE "ok"

\* PaperWallet.bip85_data(): e.inp = [master]; e.res.v = seq of [path, value]
Bip85DataSpec == << <<"mnemonic", 24, 0>>, <<"mnemonic", 18, 0>>, <<"mnemonic", 12, 0>>,
                    <<"wif", 0, 0>>, <<"wif", 0, 1>>, <<"wif", 0, 2>>,
                    <<"xprv", 0, 0>>, <<"xprv", 0, 1>>, <<"xprv", 0, 2>> >>
V_Bip85Data(e) ==
  LET m == MasterFromInp(e)
      ixOf(i) == [neg |-> FALSE, mag |-> <<i>>]
      want(j) == LET t == Bip85DataSpec[j]
                 IN << Format(TRUE, PathOf(t[1], t[2], ixOf(t[3])).path), Bip85Value(e, m, t[1], t[2], ixOf(t[3])).str >>
  IN IF Raised(e) THEN "bip85data-raised"
     ELSE IF Len(e.res.v) # 9 THEN "bip85data-number-of-entries"
     ELSE IF \E j \in 1..9 : e.res.v[j][1] # want(j)[1] THEN "bip85data-path-label"
     ELSE IF \E j \in 1..9 : e.res.v[j][2] # want(j)[2] THEN "bip85data-value"
     ELSE "ok"

---------------------------------------------------------------------------
\* C08 new mnemonics: e.inp = [words]; e.requests = seq of [src, n]; e.prng_same; e.res.v = [idx]
SumN(reqs) == FoldLeft(LAMBDA acc, r : acc + r.n, 0, reqs)
V_NewMnemonic(e) ==
  LET ent == (32 * e.inp.words) \div 3
  IN IF Raised(e) THEN (IF e.inp.words \in {12, 15, 18, 21, 24} THEN "new-raised" ELSE "ok")
     ELSE IF e.inp.words \notin {12, 15, 18, 21, 24} THEN "new-accepted-illegal-length"
     ELSE IF 8 * SumN(e.requests) < ent THEN "new-fewer-os-bits-than-entropy"
     ELSE IF \E j \in 1..Len(e.requests) : e.requests[j].src \notin {"os.urandom", "random._urandom", "os.getrandom"} THEN "new-foreign-entropy-source"
     ELSE IF ~e.prng_same THEN "new-touched-the-seedable-generator"
     ELSE IF Len(e.res.v.idx) # e.inp.words THEN "new-word-count"
     ELSE IF \E j \in 1..Len(e.res.v.idx) : e.res.v.idx[j] < 0 THEN "new-word-not-in-list"
     ELSE LET d == B39!Decode(e.res.v.idx)
          IN IF 8 * Len(d.ent) # ent THEN "new-entropy-size"
             ELSE IF B39!Sentence(e, d.ent).idx # e.res.v.idx THEN "new-checksum-invalid"
             ELSE "ok"

---------------------------------------------------------------------------
Verdict(e) ==
  CASE e.act = "Master" -> V_Master(e)
    [] e.act = "CkdPriv" -> V_CkdPriv(e)
    [] e.act = "CkdPub" -> V_CkdPub(e)
    [] e.act = "DerivePath" -> V_DerivePath(e)
    [] e.act = "Agree" -> V_Agree(e)
    [] e.act = "CkdSeq" -> V_CkdSeq(e)
    [] e.act = "GenChildren" -> V_GenChildren(e)
    [] e.act = "MisloadedPub" -> V_MisloadedPub(e)
    [] e.act = "ExtSer" -> V_ExtSer(e)
    [] e.act = "ExtParse" -> V_ExtParse(e)
    [] e.act = "Import" -> V_Import(e)
    [] e.act = "VersionParse" -> V_VersionParse(e)
    [] e.act = "PubOf" -> V_PubOf(e)
    [] e.act = "PrivCtor" -> V_PrivCtor(e)
    [] e.act = "Wif" -> V_Wif(e)
    [] e.act = "FromWif" -> V_FromWif(e)
    [] e.act = "SecParse" -> V_SecParse(e)
    [] e.act = "BadPointNode" -> V_BadPointNode(e)
    [] e.act = "FromPoint" -> (IF \E j \in 1..Len(e.res.v.probes) : e.res.v.probes[j].ok
                               THEN "public-key-built-from-a-point-of-another-curve" ELSE "ok")
    [] e.act = "Addr" -> V_Addr(e)
    [] e.act = "ScriptTpl" -> V_ScriptTpl(e)
    [] e.act = "AddrSeq" -> V_AddrSeq(e)
    [] e.act = "Hash" -> V_Hash(e)
    [] e.act = "Mnemonic" -> V_Mnemonic(e)
    [] e.act = "WordList" -> V_WordList(e)
    [] e.act = "Seed" -> V_Seed(e)
    [] e.act = "Construct" -> V_Construct(e)
    [] e.act = "Bip85" -> V_Bip85(e)
    [] e.act = "Emit" -> V_Emit(e)
    [] e.act = "Watch" -> V_Watch(e)
    [] e.act = "Generate" -> V_Generate(e)
    [] e.act = "GenerateOrder" -> V_GenerateOrder(e)
    [] e.act = "Wasabi" -> V_Wasabi(e)
    [] e.act = "Paranoia" -> V_Paranoia(e)
    [] e.act = "Bip85Data" -> V_Bip85Data(e)
    [] e.act = "NewMnemonic" -> V_NewMnemonic(e)
    [] OTHER -> "unknown-act"

TraceInit == l = 1
TraceNext ==
  /\ l <= Len(Trace)
  /\ LET v == Verdict(Trace[l])
     IN IF v = "ok" THEN TRUE ELSE PrintT(<<"RJ", Trace[l].id, v>>)
  /\ l' = l + 1
=============================================================================
