CONSTANTS MaxB = 2
MaxS = 3
INIT Init
NEXT Next
INVARIANT RoundTripBytes
INVARIANT LeadingZerosOneForOne
INVARIANT EncOverAlphabet
INVARIANT RoundTripStr
INVARIANT AcceptIffChecksum
INVARIANT ShortRejected
