---------------------------- MODULE MC_KeyCodec ----------------------------
(***************************************************************************)
(* Bounded model for C09.                                                  *)
(*  - small scale (KeyLen = 1, N = 13): EVERY byte string of length 0..2   *)
(*    as constructor input is accepted iff it is a valid scalar; every     *)
(*    valid scalar x four WIF flavours round-trips through the payload.    *)
(*  - real scale, as assumptions evaluated by TLC: the first-character     *)
(*    theorem the implementation's compressed-flag detection relies on.    *)
(*    For a fixed flavour all payloads have the same length and a non-zero *)
(*    first byte, so Base58 is monotone on them; the smallest and largest  *)
(*    strings have the same length, hence every WIF of that flavour starts *)
(*    with a character between their first characters.                     *)
(***************************************************************************)
EXTENDS KeyCodec, Base58, TLC

VARIABLES mode, x

vars == <<mode, x>>

N1 == <<13>>
Valid1(b) == Len(b) = 1 /\ ~IsZero(b) /\ Less(b, N1)

Strings == {<<>>} \cup {<<a>> : a \in Byte} \cup {<<a, b>> : a \in {0, 1, 12, 13, 255}, b \in Byte}
Flavours == {TRUE, FALSE} \X {"main", "test"}

Init == \/ mode = "ctor" /\ x \in Strings
        \/ mode = "wif" /\ x \in ({<<k>> : k \in 1..12} \X Flavours)

Next == UNCHANGED vars

\* constructor outcome as the specification defines it
Ctor(b) == IF Valid1(b) THEN [ok |-> TRUE, k |-> b] ELSE [ok |-> FALSE]

AcceptIffValid ==
  mode = "ctor" => (Ctor(x).ok <=> (Len(x) = 1 /\ x[1] \in 1..12))

WifRoundTrip ==
  mode = "wif" =>
    LET k == x[1]  comp == x[2][1]  net == x[2][2]
        p == WifPayload(k, comp, net)
        r == WifParse(p, 1)
    IN r.ok /\ r.k = k /\ r.compressed = comp /\ r.net = net
       /\ Len(p) = (IF comp THEN 3 ELSE 2)

---------------------------------------------------------------------------
\* first-character theorem (real scale)
One32 == Zeros(31) \o <<1>>
NMinus1 == SubB(SecpN, One32)
MinWif(comp, net) == Enc(WifPayload(One32, comp, net) \o <<0, 0, 0, 0>>)
MaxWif(comp, net) == Enc(WifPayload(NMinus1, comp, net) \o <<255, 255, 255, 255>>)

FirstChars(comp, net) == <<MinWif(comp, net)[1], MaxWif(comp, net)[1]>>

ASSUME \A f \in Flavours : Len(MinWif(f[1], f[2])) = Len(MaxWif(f[1], f[2]))
ASSUME Len(MinWif(TRUE, "main")) = 52 /\ Len(MinWif(FALSE, "main")) = 51
ASSUME FirstChars(TRUE, "main") = <<75, 76>>          \* 'K' .. 'L'
ASSUME FirstChars(TRUE, "test") = <<99, 99>>          \* 'c'
ASSUME FirstChars(FALSE, "main") = <<53, 53>>         \* '5'
ASSUME FirstChars(FALSE, "test") = <<57, 57>>         \* '9'
\* 'K' and 'L' are adjacent in the alphabet, so {K, L} is the whole range
ASSUME DigitOf[76] = DigitOf[75] + 1
=============================================================================
