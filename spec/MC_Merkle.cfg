CONSTANTS Leaves = {1, 2}
MaxLen = 4
MaxCalls = 3
INIT Init
NEXT Next
INVARIANT ListIsOriginalPlusCopies
PROPERTY CallerListOnlyDuplicatesLast
