------------------------------- MODULE Base58 -------------------------------
(***************************************************************************)
(* Base58 and Base58Check over byte sequences; text is a sequence of code  *)
(* points.  Hash256 is not defined here: the checksummed operators take    *)
(* the 32-byte digest (or a lookup operator) as an argument, so that the   *)
(* bounded models can let TLC choose it and the trace specs can read it    *)
(* from the oracle table of the event.                                     *)
(***************************************************************************)
EXTENDS Bytes

\* "123456789ABCDEFGHJKLMNPQRSTUVWXYZabcdefghijkmnopqrstuvwxyz"
Alphabet == <<49,50,51,52,53,54,55,56,57,
              65,66,67,68,69,70,71,72,74,75,76,77,78,80,81,82,83,84,85,86,87,88,89,90,
              97,98,99,100,101,102,103,104,105,106,107,109,110,111,112,113,114,115,
              116,117,118,119,120,121,122>>

ASSUME Len(Alphabet) = 58

\* code point -> digit value + 1 (0 = not in the alphabet)
DigitOf == [c \in 0..127 |-> IndexOf(Alphabet, c)]
InAlphabet(c) == c \in 0..127 /\ DigitOf[c] # 0
AllInAlphabet(s) == \A i \in 1..Len(s) : InAlphabet(s[i])

(***************************************************************************)
(* Enc: leading zero bytes map one-for-one to leading '1'; the rest is the *)
(* base-58 numeral of the big-endian value.                                *)
(***************************************************************************)
Enc(b) ==
  LET z == CountLeading(b, 0)
      ds == Radix(Drop(b, z), 256, 58)
  IN Rep(Alphabet[1], z) \o [i \in 1..Len(ds) |-> Alphabet[ds[i] + 1]]

(***************************************************************************)
(* Dec of a string over the alphabet: inverse of Enc on every non-empty    *)
(* string.  (For the all-'1' string "1"*k the value is zero and the result *)
(* is k zero bytes.)                                                       *)
(***************************************************************************)
Dec(s) ==
  LET z == CountLeading(s, Alphabet[1])
      rest == Drop(s, z)
      ds == [i \in 1..Len(rest) |-> DigitOf[rest[i]] - 1]
  IN Zeros(z) \o Radix(ds, 58, 256)

(***************************************************************************)
(* Checksummed forms.  H256(body) must be the 32-byte double SHA-256.      *)
(***************************************************************************)
EncCheck(body, h256) == Enc(body \o Take(h256, 4))

\* Verdict of the checksummed decoder on an arbitrary code-point string.
\* H(body) is a lookup operator supplied by the caller.
DecCheckShape(s) ==      \* everything that does not need the hash
  IF Len(s) = 0 THEN [ok |-> FALSE, why |-> "empty"]
  ELSE IF ~AllInAlphabet(s) THEN [ok |-> FALSE, why |-> "alphabet"]
  ELSE LET raw == Dec(s)
       IN IF Len(raw) < 4 THEN [ok |-> FALSE, why |-> "short"]
          ELSE [ok |-> TRUE, body |-> SubSeq(raw, 1, Len(raw) - 4),
                sum |-> SubSeq(raw, Len(raw) - 3, Len(raw))]
=============================================================================
