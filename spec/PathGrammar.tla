---------------------------- MODULE PathGrammar ----------------------------
(***************************************************************************)
(* BIP32 path strings: m / i / i' / ih ...                                 *)
(* A path string is a sequence of code points.  A child number is a 4-byte *)
(* big-endian sequence (hardened iff the first byte is >= 128).            *)
(*                                                                         *)
(* Parse(str) returns [kind, list, private, ntok, why] with kind           *)
(*   "ok"     : the statement fixes the meaning: `list` (every component)  *)
(*   "reject" : the statement demands an error (at parse or at the         *)
(*              derivation the parse feeds)                                *)
(*   "either" : spellings on which the statement is silent (sign or blank  *)
(*              or '_' decorated numerals, non-ASCII digits, trailing '/') *)
(*              - not judged                                               *)
(* The code's five-slot limit is NOT part of the grammar: for more than    *)
(* five components the property allows "ok with the full list" or an       *)
(* error.  IgnoreTail(list) names what the pinned code does instead; it is *)
(* used only to label a violation (see DESIGN.md, D-C17b).                 *)
(***************************************************************************)
EXTENDS Bytes

Slash == 47
Tick == 39
LetterH == 104
Minus == 45

\* split on '/': always at least one (possibly empty) token
Split(s, sep) ==
  LET r == FoldLeft(LAMBDA acc, c : IF c = sep THEN <<Append(acc[1], acc[2]), <<>>>>
                                    ELSE <<acc[1], Append(acc[2], c)>>,
                    <<<<>>, <<>>>>, s)
  IN Append(r[1], r[2])

IsDigit(c) == c >= 48 /\ c <= 57
AllDigits(t) == Len(t) > 0 /\ \A i \in 1..Len(t) : IsDigit(t[i])
IsBlank(c) == c \in {9, 10, 11, 12, 13, 32, 28, 29, 30, 31, 133, 160}
LenientChar(c) == IsDigit(c) \/ c = 43 \/ c = 95 \/ IsBlank(c) \/ c >= 128

\* Spellings Python's int() reads although they are not plain decimal numerals: blanks AROUND the
\* numeral, one leading '+', single underscores BETWEEN digits.  They have an evident value; the
\* statement does not say whether they must be accepted, so the outcome may be an error or that value.
LeadBlanks(s) == FoldLeft(LAMBDA acc, c : IF acc[2] /\ IsBlank(c) THEN <<acc[1] + 1, TRUE>> ELSE <<acc[1], FALSE>>, <<0, TRUE>>, s)[1]
StripBlanks(s) == LET a == LeadBlanks(s)
                      b == LeadBlanks(Reverse(s))
                  IN IF a + b >= Len(s) THEN <<>> ELSE SubSeq(s, a + 1, Len(s) - b)
UnderscoresOk(s) ==
  /\ Len(s) >= 1 /\ IsDigit(s[1]) /\ IsDigit(s[Len(s)])
  /\ \A i \in 1..Len(s) : IsDigit(s[i]) \/ s[i] = 95
  /\ \A i \in 1..(Len(s) - 1) : ~(s[i] = 95 /\ s[i + 1] = 95)
\* [ok, ds]: digits of a decorated numeral
Evident(body) ==
  LET s0 == StripBlanks(body)
      s1 == IF Len(s0) >= 1 /\ s0[1] = 43 THEN Drop(s0, 1) ELSE s0
  IN IF UnderscoresOk(s1) THEN [ok |-> TRUE, ds |-> LET d == SelectSeq(s1, IsDigit) IN [i \in 1..Len(d) |-> d[i] - 48]]
     ELSE [ok |-> FALSE, ds |-> <<>>]

DigitVals(t) == [i \in 1..Len(t) |-> t[i] - 48]
StripZeros(ds) == LET z == CountLeading(ds, 0) IN Drop(ds, z)

Dec4294967295 == <<4,2,9,4,9,6,7,2,9,5>>      \* 2^32 - 1
Dec2147483647 == <<2,1,4,7,4,8,3,6,4,7>>      \* 2^31 - 1

DecLeq(ds0, bound) ==
  LET ds == StripZeros(ds0)
  IN IF Len(ds) < Len(bound) THEN TRUE
     ELSE IF Len(ds) > Len(bound) THEN FALSE
     ELSE Cmp(ds, bound) # 2

To4(ds) == LET b == Radix(StripZeros(ds), 10, 256) IN Zeros(4 - Len(b)) \o b
Harden(b4) == <<b4[1] + 128, b4[2], b4[3], b4[4]>>
IsHardened(b4) == b4[1] >= 128

(***************************************************************************)
(* One component token -> [kind, idx, why]                                 *)
(***************************************************************************)
Component(tok) ==
  LET marked == Len(tok) > 0 /\ tok[Len(tok)] \in {Tick, LetterH}
      body == IF marked THEN SubSeq(tok, 1, Len(tok) - 1) ELSE tok
      rej(w) == [kind |-> "reject", idx |-> <<>>, why |-> w]
  IN IF Len(body) = 0 THEN rej("empty")
     ELSE IF AllDigits(body)
          THEN LET ds == DigitVals(body)
               IN IF marked
                  THEN IF DecLeq(ds, Dec2147483647)
                       THEN [kind |-> "ok", idx |-> Harden(To4(ds)), why |-> "ok"]
                       ELSE rej("marked-range")
                  ELSE IF DecLeq(ds, Dec4294967295)
                       THEN [kind |-> "ok", idx |-> To4(ds), why |-> "ok"]
                       ELSE rej("range")
     ELSE IF body[1] = Minus /\ AllDigits(Drop(body, 1))
          THEN IF IsZero(DigitVals(Drop(body, 1)))
               THEN [kind |-> "either", idx |-> IF marked THEN Harden(Zeros(4)) ELSE Zeros(4), why |-> "minus-zero"]
               ELSE rej("negative")
     ELSE IF Evident(body).ok
          THEN LET ds == Evident(body).ds
               IN IF marked
                  THEN IF DecLeq(ds, Dec2147483647) THEN [kind |-> "either", idx |-> Harden(To4(ds)), why |-> "decorated-numeral"]
                       ELSE rej("marked-range")
                  ELSE IF DecLeq(ds, Dec4294967295) THEN [kind |-> "either", idx |-> To4(ds), why |-> "decorated-numeral"]
                       ELSE rej("range")
     ELSE IF (\A i \in 1..Len(body) : LenientChar(body[i])) /\ (\E i \in 1..Len(body) : body[i] >= 128)
          THEN [kind |-> "either", idx |-> <<>>, why |-> "non-ascii-numeral"]     \* no evident value: not judged
     ELSE rej("junk")

(***************************************************************************)
(* Whole string.                                                           *)
(***************************************************************************)
Parse(str) ==
  LET toks == Split(str, Slash)
      n == Len(toks)
      root == toks[1]
      res(k, l, w) == [kind |-> k, list |-> l, private |-> (root = <<109>>),
                       ntok |-> n - 1, why |-> w]
  IN IF root # <<109>> /\ root # <<77>> THEN res("reject", <<>>, "root")
     ELSE
     LET \* number of trailing empty tokens (trailing '/'): statement is silent
         trail == CountLeading(Reverse(SubSeq(toks, 2, n)), <<>>)
         m == n - trail                   \* tokens 2..m are the components
         comps == [i \in 1..(m - 1) |-> Component(toks[i + 1])]
         firstBad == IF \E i \in 1..Len(comps) : comps[i].kind = "reject"
                     THEN CHOOSE i \in 1..Len(comps) : comps[i].kind = "reject"
                                /\ \A j \in 1..(i-1) : comps[j].kind # "reject"
                     ELSE 0
     IN IF firstBad # 0 THEN res("reject", <<>>, comps[firstBad].why)
        ELSE IF trail > 0 \/ \E i \in 1..Len(comps) : comps[i].kind = "either"
             THEN \* the evident list (when every decorated component has one): the outcome may be an
                  \* error or this list, nothing else
                  IF \A i \in 1..Len(comps) : comps[i].idx # <<>>
                  THEN res("either", [i \in 1..Len(comps) |-> comps[i].idx], "lenient-evident")
                  ELSE res("either", <<>>, "lenient")
        ELSE res("ok", [i \in 1..Len(comps) |-> comps[i].idx], "ok")

\* what the pinned code does with more than five components (named deviation):
\* only the root mark and the first five components are looked at
IgnoreTail(list) == Take(list, 5)
JoinToks(toks) == FoldLeft(LAMBDA acc, t : acc \o <<Slash>> \o t, toks[1], SubSeq(toks, 2, Len(toks)))
TruncatedString(str) == LET toks == Split(str, Slash)
                        IN IF Len(toks) <= 6 THEN str ELSE JoinToks(SubSeq(toks, 1, 6))
\* number of '/'-separated tokens after the root
NTok(str) == Len(Split(str, Slash)) - 1

(***************************************************************************)
(* Formatting.                                                             *)
(***************************************************************************)
Decimal(b) == LET ds == Radix(b, 256, 10)
              IN IF Len(ds) = 0 THEN <<48>> ELSE [i \in 1..Len(ds) |-> ds[i] + 48]
Unharden(b4) == <<b4[1] - 128, b4[2], b4[3], b4[4]>>
FormatIndex(b4) == IF IsHardened(b4) THEN Decimal(Unharden(b4)) \o <<Tick>> ELSE Decimal(b4)
FormatIndexH(b4) == IF IsHardened(b4) THEN Decimal(Unharden(b4)) \o <<LetterH>> ELSE Decimal(b4)
Format(private, list) ==
  FoldLeft(LAMBDA acc, b4 : acc \o <<Slash>> \o FormatIndex(b4),
           IF private THEN <<109>> ELSE <<77>>, list)
FormatH(private, list) ==
  FoldLeft(LAMBDA acc, b4 : acc \o <<Slash>> \o FormatIndexH(b4),
           IF private THEN <<109>> ELSE <<77>>, list)
\* ---- what a path MEANS to the wallet (purpose, coin, chain slots); used for choosing the SLIP-132 flavour
B4(n) == <<0, 0, 0, n>>                       \* small numbers only
Slot(list, j) == IF Len(list) >= j THEN list[j] ELSE <<>>
PathProps(list) ==
  LET purpose == Slot(list, 1)  coin == Slot(list, 2)  chain == Slot(list, 4)
      b44 == purpose = Harden(B4(44))  b49 == purpose = Harden(B4(49))  b84 == purpose = Harden(B4(84))
  IN [bip44 |-> b44, bip49 |-> b49, bip84 |-> b84,
      mainnet |-> coin = Harden(B4(0)), testnet |-> coin = Harden(B4(1)),
      external |-> chain = B4(0),
      bip |-> IF b49 THEN 49 ELSE IF b84 THEN 84 ELSE 44]      \* anything else is treated as plain BIP32/44
=============================================================================
