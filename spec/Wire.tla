-------------------------------- MODULE Wire --------------------------------
(***************************************************************************)
(* Bitcoin wire formats used by the library: variable-length integers and  *)
(* script serialisation.  The parser is an explicit byte-at-a-time step    *)
(* automaton (ScriptInit / ScriptStep / ScriptEnd): the bounded model      *)
(* MC_Wire feeds it nondeterministic tapes, the trace specification folds  *)
(* it over recorded tapes, so both use the same transition function.       *)
(*                                                                         *)
(* Integers that may exceed 2^31 are little-endian byte sequences without  *)
(* trailing zero bytes ("LE values"); <<>> is zero.                        *)
(***************************************************************************)
EXTENDS Bytes

TrimLE(le) ==      \* drop trailing (most significant) zero bytes
  LET n == Len(le)
      k == CountLeading(Reverse(le), 0)
  IN SubSeq(le, 1, n - k)
PadLE(le, w) == le \o Zeros(w - Len(le))

Huge == 1073741824     \* stands for every declared length no test tape can reach

LEToNatOrHuge(le) == LET t == TrimLE(le)
                     IN IF Len(t) <= 3 THEN ToNatLE(t) ELSE Huge

(***************************************************************************)
(* EncVarint(le) -> [ok, bytes]: shortest standard form, refuse >= 2^64.   *)
(***************************************************************************)
EncVarint(le) ==
  LET t == TrimLE(le)
      n == Len(t)
  IN IF n = 0 THEN [ok |-> TRUE, bytes |-> <<0>>]
     ELSE IF n = 1 /\ t[1] < 253 THEN [ok |-> TRUE, bytes |-> t]
     ELSE IF n <= 2 THEN [ok |-> TRUE, bytes |-> <<253>> \o PadLE(t, 2)]
     ELSE IF n <= 4 THEN [ok |-> TRUE, bytes |-> <<254>> \o PadLE(t, 4)]
     ELSE IF n <= 8 THEN [ok |-> TRUE, bytes |-> <<255>> \o PadLE(t, 8)]
     ELSE [ok |-> FALSE, bytes |-> <<>>]

EncVarintNat(v) == EncVarint(TrimLE(FromNatLE(v, 4))).bytes     \* v < 2^31

(***************************************************************************)
(* ReadVarint(tape) -> [ok, val (LE, trimmed), used]; a short read fails.  *)
(***************************************************************************)
VarintWidth(b0) == IF b0 = 253 THEN 2 ELSE IF b0 = 254 THEN 4 ELSE IF b0 = 255 THEN 8 ELSE 0

ReadVarint(tape) ==
  IF Len(tape) = 0 THEN [ok |-> FALSE, val |-> <<>>, used |-> 0]
  ELSE LET w == VarintWidth(tape[1])
       IN IF w = 0 THEN [ok |-> TRUE, val |-> TrimLE(<<tape[1]>>), used |-> 1]
          ELSE IF Len(tape) < 1 + w THEN [ok |-> FALSE, val |-> <<>>, used |-> Len(tape)]
          ELSE [ok |-> TRUE, val |-> TrimLE(SubSeq(tape, 2, 1 + w)), used |-> 1 + w]

(***************************************************************************)
(* Script serialisation.  A command is [op |-> 0..255] or [d |-> bytes].   *)
(***************************************************************************)
IsOp(c) == "op" \in DOMAIN c

\* [ok, bytes]; lengths 1..75 bare, 76..255 PUSHDATA1, 256..520 PUSHDATA2
PushHeader(n) ==
  IF n >= 1 /\ n <= 75 THEN [ok |-> TRUE, bytes |-> <<n>>]
  ELSE IF n >= 76 /\ n <= 255 THEN [ok |-> TRUE, bytes |-> <<76, n>>]
  ELSE IF n >= 256 /\ n <= 520 THEN [ok |-> TRUE, bytes |-> <<77, n % 256, n \div 256>>]
  ELSE [ok |-> FALSE, bytes |-> <<>>]

CmdOk(c) == IsOp(c) \/ PushHeader(Len(c.d)).ok
CmdBytes(c) == IF IsOp(c) THEN <<c.op>> ELSE PushHeader(Len(c.d)).bytes \o c.d

\* [ok, bytes]
RawSerializeScript(cmds) ==
  IF \E i \in 1..Len(cmds) : ~CmdOk(cmds[i]) THEN [ok |-> FALSE, bytes |-> <<>>]
  ELSE [ok |-> TRUE, bytes |-> Flatten([i \in 1..Len(cmds) |-> CmdBytes(cmds[i])])]

SerializeScript(cmds) ==
  LET r == RawSerializeScript(cmds)
  IN IF ~r.ok THEN r
     ELSE [ok |-> TRUE, bytes |-> EncVarintNat(Len(r.bytes)) \o r.bytes]

(***************************************************************************)
(* The parser automaton.                                                   *)
(*   phase: "len0" | "lenN" | "op" | "pd1" | "pd2a" | "pd2b" | "data" |    *)
(*          "done" | "fail"                                                *)
(*   need : bytes still to read in lenN / data                             *)
(*   buf  : bytes collected so far for the current item                    *)
(*   declared, count : the length accounting of the property               *)
(***************************************************************************)
ScriptInit == [phase |-> "len0", need |-> 0, buf |-> <<>>, declared |-> 0,
               count |-> 0, cmds |-> <<>>, used |-> 0, lo |-> 0, vlen |-> 0]

AfterItem(st) ==       \* called when an item is complete: decide op / done / fail
  IF st.count = st.declared THEN [st EXCEPT !.phase = "done"]
  ELSE IF st.count > st.declared THEN [st EXCEPT !.phase = "fail"]
  ELSE [st EXCEPT !.phase = "op"]

StartData(st, n) ==    \* header fully read, n data bytes follow
  IF n = 0 THEN AfterItem([st EXCEPT !.cmds = Append(st.cmds, [d |-> <<>>])])
  ELSE [st EXCEPT !.phase = "data", !.need = n, !.buf = <<>>]

ScriptStep(st0, b) ==
  IF st0.phase \in {"done", "fail"} THEN st0      \* bytes after the script are not consumed
  ELSE
  LET st == [st0 EXCEPT !.used = st0.used + 1]
  IN CASE st.phase = "len0" ->
            LET w == VarintWidth(b)
            IN IF w = 0 THEN AfterItem([st EXCEPT !.declared = b, !.vlen = 1])
               ELSE [st EXCEPT !.phase = "lenN", !.need = w, !.buf = <<>>]
       [] st.phase = "lenN" ->
            LET nb == Append(st.buf, b)
            IN IF st.need = 1
               THEN AfterItem([st EXCEPT !.declared = LEToNatOrHuge(nb), !.buf = <<>>, !.need = 0,
                                         !.vlen = st.used])
               ELSE [st EXCEPT !.buf = nb, !.need = st.need - 1]
       [] st.phase = "op" ->
            IF b >= 1 /\ b <= 75
              THEN StartData([st EXCEPT !.count = st.count + 1 + b], b)
            ELSE IF b = 76 THEN [st EXCEPT !.phase = "pd1", !.count = st.count + 1]
            ELSE IF b = 77 THEN [st EXCEPT !.phase = "pd2a", !.count = st.count + 1]
            ELSE AfterItem([st EXCEPT !.count = st.count + 1,
                                      !.cmds = Append(st.cmds, [op |-> b])])
       [] st.phase = "pd1" ->
            StartData([st EXCEPT !.count = st.count + 1 + b], b)
       [] st.phase = "pd2a" -> [st EXCEPT !.phase = "pd2b", !.lo = b]
       [] st.phase = "pd2b" ->
            LET n == st.lo + 256 * b
            IN StartData([st EXCEPT !.count = st.count + 2 + n], n)
       [] st.phase = "data" ->
            LET nb == Append(st.buf, b)
            IN IF st.need = 1
               THEN AfterItem([st EXCEPT !.cmds = Append(st.cmds, [d |-> nb]),
                                         !.buf = <<>>, !.need = 0])
               ELSE [st EXCEPT !.buf = nb, !.need = st.need - 1]

\* verdict at end of input
ScriptAccept(st) == st.phase = "done"

ParseScript(tape) ==
  LET st == FoldLeft(ScriptStep, ScriptInit, tape)
  IN [ok |-> ScriptAccept(st), cmds |-> st.cmds, used |-> st.used,
      declared |-> st.declared, count |-> st.count, phase |-> st.phase]
=============================================================================
