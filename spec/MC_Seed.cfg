INIT Init
NEXT Next
INVARIANT NfkdInvariant
INVARIANT Separation
INVARIANT RoutesAgree
INVARIANT NetworkIrrelevant
