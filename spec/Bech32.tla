------------------------------- MODULE Bech32 -------------------------------
(***************************************************************************)
(* BIP173 / BIP350: Bech32 and Bech32m strings and segwit addresses.       *)
(* Text is a sequence of code points; data is a sequence of 5-bit symbols. *)
(* Every decoding rule is a named conjunct so that a rejected trace line   *)
(* can say which rule the implementation disagreed on.                     *)
(***************************************************************************)
EXTENDS Bytes, Bitwise

\* "qpzry9x8gf2tvdw0s3jn54khce6mua7l"
Charset == <<113,112,122,114,121,57,120,56,103,102,50,116,118,100,119,48,
             115,51,106,110,53,52,107,104,99,101,54,109,117,97,55,108>>
ASSUME Len(Charset) = 32

SymOf == [c \in 0..127 |-> IndexOf(Charset, c)]      \* symbol + 1, 0 = none

Gen == <<996825010, 642813549, 513874426, 1027748829, 705979059>>
   \* 0x3b6a57b2, 0x26508e6d, 0x1ea119fa, 0x3d4233dd, 0x2a1462b3
Bech32Const  == 1
Bech32mConst == 734539939        \* 0x2bc830a3

PolyStep(chk, v) ==
  LET top == chk \div 33554432                       \* chk >> 25
      c0 == ((chk % 33554432) * 32) ^^ v
  IN FoldLeft(LAMBDA c, i : IF (top \div (2 ^ (i - 1))) % 2 = 1 THEN c ^^ Gen[i] ELSE c,
              c0, <<1, 2, 3, 4, 5>>)

Polymod(values) == FoldLeft(PolyStep, 1, values)

Lower(c) == IF c >= 65 /\ c <= 90 THEN c + 32 ELSE c
Upper(c) == IF c >= 97 /\ c <= 122 THEN c - 32 ELSE c
ToLower(s) == [i \in 1..Len(s) |-> Lower(s[i])]
ToUpper(s) == [i \in 1..Len(s) |-> Upper(s[i])]

HrpExpand(hrp) == [i \in 1..Len(hrp) |-> hrp[i] \div 32] \o <<0>> \o
                  [i \in 1..Len(hrp) |-> hrp[i] % 32]

Checksum(hrp, data, const) ==
  LET pm == Polymod(HrpExpand(hrp) \o data \o <<0,0,0,0,0,0>>) ^^ const
  IN [i \in 1..6 |-> (pm \div (32 ^ (6 - i))) % 32]

EncodeStr(hrp, data, const) ==
  hrp \o <<49>> \o [i \in 1..(Len(data) + 6) |->
                       Charset[(data \o Checksum(hrp, data, const))[i] + 1]]

LastIndexOf(s, x) ==
  IF \E i \in 1..Len(s) : s[i] = x
  THEN CHOOSE i \in 1..Len(s) : s[i] = x /\ \A j \in (i+1)..Len(s) : s[j] # x
  ELSE 0

(***************************************************************************)
(* Decode(str) -> [ok, why, hrp, data, const]                              *)
(***************************************************************************)
Decode(str) ==
  LET bad(w) == [ok |-> FALSE, why |-> w]
  IN
  IF \E i \in 1..Len(str) : str[i] < 33 \/ str[i] > 126 THEN bad("printable")
  ELSE IF ToLower(str) # str /\ ToUpper(str) # str THEN bad("mixedcase")
  ELSE LET s == ToLower(str)
           pos == LastIndexOf(s, 49)            \* 1-based position of last '1'
       IN IF pos < 2 THEN bad("separator")
          ELSE IF pos + 6 > Len(s) THEN bad("tooshort")
          ELSE IF Len(s) > 90 THEN bad("toolong")
          ELSE LET dp == SubSeq(s, pos + 1, Len(s))
               IN IF \E i \in 1..Len(dp) : SymOf[dp[i]] = 0 THEN bad("charset")
                  ELSE LET hrp == SubSeq(s, 1, pos - 1)
                           data == [i \in 1..Len(dp) |-> SymOf[dp[i]] - 1]
                           pm == Polymod(HrpExpand(hrp) \o data)
                       IN IF pm # Bech32Const /\ pm # Bech32mConst THEN bad("checksum")
                          ELSE [ok |-> TRUE, why |-> "ok", hrp |-> hrp,
                                data |-> SubSeq(data, 1, Len(data) - 6), const |-> pm]

(***************************************************************************)
(* ConvertBits(data, from, to, pad) -> [ok, out]  (BIP173 reference rules) *)
(***************************************************************************)
ConvertBits(data, from, to, pad) ==
  LET bits == Flatten([i \in 1..Len(data) |-> NatToBits(data[i], from)])
      full == Len(bits) \div to
      rem  == Len(bits) % to
      groups == [j \in 1..full |-> BitsToNat(SubSeq(bits, (j-1)*to + 1, j*to))]
      tail == SubSeq(bits, full * to + 1, Len(bits))
  IN IF \E i \in 1..Len(data) : data[i] < 0 \/ data[i] >= 2 ^ from
     THEN [ok |-> FALSE, out |-> <<>>]
     ELSE IF pad
          THEN [ok |-> TRUE,
                out |-> IF rem = 0 THEN groups
                        ELSE Append(groups, BitsToNat(tail \o Zeros(to - rem)))]
          ELSE IF rem >= from \/ (rem > 0 /\ BitsToNat(tail) # 0)
               THEN [ok |-> FALSE, out |-> <<>>]
               ELSE [ok |-> TRUE, out |-> groups]

(***************************************************************************)
(* Segwit addresses.                                                       *)
(***************************************************************************)
LegalProgram(ver, n) == /\ ver \in 0..16
                        /\ n \in 2..40
                        /\ (ver = 0 => n \in {20, 32})

ConstFor(ver) == IF ver = 0 THEN Bech32Const ELSE Bech32mConst

\* a prefix an address can carry: 1..83 printable characters, no upper case
\* (an upper-case prefix would make the emitted string mixed-case)
LegalHrp(hrp) == /\ Len(hrp) >= 1
                 /\ \A i \in 1..Len(hrp) : hrp[i] >= 33 /\ hrp[i] <= 126 /\ Lower(hrp[i]) = hrp[i]

\* symbols needed for n program bytes
SymLen(n) == (8 * n + 4) \div 5

\* [ok, str]: no address for an illegal version/length combination, an
\* illegal prefix, or a string that would exceed 90 characters
AddrEncode(hrp, ver, prog) ==
  IF ~LegalProgram(ver, Len(prog)) \/ ~LegalHrp(hrp)
     \/ Len(hrp) + 1 + 1 + SymLen(Len(prog)) + 6 > 90
  THEN [ok |-> FALSE, str |-> <<>>]
  ELSE [ok |-> TRUE,
        str |-> EncodeStr(hrp, <<ver>> \o ConvertBits(prog, 8, 5, TRUE).out, ConstFor(ver))]

\* [ok, why, ver, prog]
AddrDecode(hrp, str) ==
  LET bad(w) == [ok |-> FALSE, why |-> w]
      d == Decode(str)
  IN IF ~d.ok THEN bad(d.why)
     ELSE IF d.hrp # hrp THEN bad("hrp")
     ELSE IF Len(d.data) < 1 THEN bad("noversion")
     ELSE LET cb == ConvertBits(SubSeq(d.data, 2, Len(d.data)), 5, 8, FALSE)
              ver == d.data[1]
          IN IF ~cb.ok THEN bad("padding")
             ELSE IF Len(cb.out) < 2 \/ Len(cb.out) > 40 THEN bad("proglen")
             ELSE IF ver > 16 THEN bad("version")
             ELSE IF ver = 0 /\ Len(cb.out) \notin {20, 32} THEN bad("v0len")
             ELSE IF d.const # ConstFor(ver) THEN bad("const")
             ELSE [ok |-> TRUE, why |-> "ok", ver |-> ver, prog |-> cb.out]
=============================================================================
