CONSTANTS Threads = {"t1"}
IndexVals = {0, 1, 2}
MaxDepth = 1
MaxCalls = 6
GenIds = {"g1", "g2"}
Nets = {"main", "test"}
Deviations = {"cursor"}
SPECIFICATION Spec
CONSTRAINT StateConstraint
INVARIANT Pure
INVARIANT GeneratorStartsAtZero
INVARIANT NoMix
