------------------------------ MODULE HDWallet ------------------------------
(***************************************************************************)
(* System model of the stateful shell (C13, C14, C16): wallet and node     *)
(* objects that are freely shared, a growing `children` list per node, an  *)
(* address generator with a private cursor, a watch-only wallet imported   *)
(* from an exported extended public key, and threads that interleave at    *)
(* the grain at which CPython can interleave them (a derivation reads key  *)
(* material, builds the child, and only then appends it to `children`).    *)
(*                                                                         *)
(* Node objects are identified by <<wallet, path>>.  Key material is NOT   *)
(* stored in the state: it is the stateless reference function F of root   *)
(* key and path (Bip32.tla at toy scale).  What IS state is exactly what a *)
(* regression could wrongly consult: `kids` (children lists), generator    *)
(* cursors, in-flight calls.  The properties say results equal F whatever  *)
(* that state is - including after Scramble, which rewrites a children     *)
(* list arbitrarily.  `Deviant` actions (off in the registered configs)    *)
(* are realistic wrong designs used as built-in negative tests.            *)
(***************************************************************************)
EXTENDS Toy, TLC

CONSTANTS Threads, IndexVals, MaxDepth, MaxCalls, GenIds, Nets, Deviations

Idx == {<<i>> : i \in IndexVals}
Kinds == {"p2pkh", "p2wpkh", "p2sh_p2wpkh", "p2wsh", "p2sh_p2wsh"}
PubVers == {"xpub", "ypub", "zpub"}          \* SLIP-132 flavours (network taken from the wallet / string)

RECURSIVE PathsUpTo(_)
PathsUpTo(n) == IF n = 0 THEN {<<>>} ELSE PathsUpTo(n - 1) \cup {p \o i : p \in PathsUpTo(n - 1), i \in Idx}
Paths == PathsUpTo(MaxDepth)

VARIABLES
  net,      \* network of the full wallet
  watch,    \* [live, src (path in the full wallet), ver, net]
  known,    \* [wallet -> set of paths whose node object exists]
  kids,     \* [wallet -> [path -> sequence of child numbers]]  (the children lists)
  gens,     \* [gen -> [live, w, path, kind, cur, started]]
  pc,       \* [thread -> <<"idle">> | <<"append", w, path, i>>]
  obs,      \* the last completed call and its result
  ncalls

vars == <<net, watch, known, kids, gens, pc, obs, ncalls>>

Wallets == {"full", "watch"}
Seed == <<9, 9, 9>>

---------------------------------------------------------------------------
\* the stateless reference: depends on root key material, network, path - nothing else
Lift(path) == [j \in 1..Len(path) |-> <<path[j]>>]       \* child numbers as one-byte sequences
\* a fixed valid master (master generation itself is explored in MC_Bip32)
MasterNode(n) == T32!PrvNode(0, <<5>>, <<2>>, 0, <<0>>, Zeros(4), n)
RootOf(w) == IF w = "full" THEN MasterNode(net)
             ELSE LET x == T32!DerivePath(0, MasterNode(net), Lift(watch.src)).node
                  IN [T32!Neuter(x) EXCEPT !.net = watch.net]
F(w, path) == T32!DerivePath(0, RootOf(w), Lift(path))    \* outcome record
Node(w, path) == F(w, path).node

\* observable renderings (abstract strings carrying exactly the tags the properties talk about)
Address(kind, n, wnet) == <<"addr", kind, wnet, n.K>>
ExtPub(n, flavour, wnet) == <<"extpub", flavour, wnet, n.K, n.c, n.depth, n.idx, n.pfp>>
ExtPrv(n, flavour, wnet) == <<"extprv", flavour, wnet, n.k, n.c, n.depth, n.idx, n.pfp>>
Wif(n, wnet) == <<"wif", wnet, n.k>>
WNet(w) == IF w = "full" THEN net ELSE watch.net
View(w, path) == LET n == Node(w, path)
                 IN [prv |-> n.prv, K |-> n.K, c |-> n.c, depth |-> n.depth, idx |-> n.idx, pfp |-> n.pfp,
                     net |-> n.net, k |-> IF n.prv THEN n.k ELSE <<>>]

Live(w) == w = "full" \/ watch.live
Exists(w, path) == Live(w) /\ path \in known[w]

---------------------------------------------------------------------------
Init ==
  /\ net \in Nets
  /\ watch = [live |-> FALSE, src |-> <<>>, ver |-> "xpub", net |-> "main"]
  /\ known = [w \in Wallets |-> {<<>>}]
  /\ kids = [w \in Wallets |-> [p \in Paths |-> <<>>]]
  /\ gens = [g \in GenIds |-> [live |-> FALSE, w |-> "full", path |-> <<>>, kind |-> "p2wpkh", cur |-> 0, started |-> FALSE]]
  /\ pc = [t \in Threads |-> <<"idle">>]
  /\ obs = <<"none">>
  /\ ncalls = 0

Count == ncalls' = ncalls + 1 /\ ncalls < MaxCalls

\* ---- single-step derivation, split at the point where another thread can run
CkdCompute(t, w, path, i) ==
  /\ pc[t] = <<"idle">> /\ Exists(w, path) /\ Len(path) < MaxDepth /\ Count
  /\ LET r == T32!CKD(0, Node(w, path), i)
     IN IF r.out = "ok"
        THEN /\ pc' = [pc EXCEPT ![t] = <<"append", w, path, i>>]
             /\ UNCHANGED obs
        ELSE /\ obs' = <<"ckd", w, path, i, r.out>>          \* error: nothing is appended
             /\ UNCHANGED pc
  /\ UNCHANGED <<net, watch, known, kids, gens>>

CkdAppend(t) ==
  /\ pc[t][1] = "append"
  /\ LET w == pc[t][2]  path == pc[t][3]  i == pc[t][4]
     IN /\ kids' = [kids EXCEPT ![w][path] = Append(@, i[1])]
        /\ known' = [known EXCEPT ![w] = @ \cup {path \o i}]
        /\ obs' = <<"ckd", w, path, i, "ok", View(w, path \o i)>>
  /\ pc' = [pc EXCEPT ![t] = <<"idle">>]
  /\ UNCHANGED <<net, watch, gens, ncalls>>

\* ---- lookup by path from the root (derive_path: every level is derived again and appended)
RECURSIVE PathPrefixes(_)
PathPrefixes(p) == IF Len(p) = 0 THEN {<<>>} ELSE {p} \cup PathPrefixes(SubSeq(p, 1, Len(p) - 1))
ByPath(t, w, p) ==
  /\ pc[t] = <<"idle">> /\ Live(w) /\ p \in Paths /\ Len(p) >= 1 /\ Count
  /\ LET r == F(w, p)
         \* the prefix that gets derived before an error (if any)
         good == {q \in PathPrefixes(p) : F(w, q).out = "ok"}
     IN /\ known' = [known EXCEPT ![w] = @ \cup good]
        /\ kids' = [kids EXCEPT ![w] = [q \in Paths |->
                       IF q \in good /\ Len(q) < Len(p) /\ (SubSeq(p, 1, Len(q) + 1) \in good)
                       THEN Append(kids[w][q], p[Len(q) + 1]) ELSE kids[w][q]]]
        /\ obs' = IF r.out = "ok" THEN <<"bypath", w, p, "ok", View(w, p)>>
                  ELSE <<"bypath", w, p, r.out, Cardinality(good) - 1>>     \* levels derived before the error
  /\ UNCHANGED <<net, watch, gens, pc>>

\* ---- read-only requests
AddrReq(t, w, path, kind) ==
  /\ pc[t] = <<"idle">> /\ Exists(w, path) /\ Count
  /\ obs' = <<"address", w, path, kind, Address(kind, Node(w, path), WNet(w))>>
  /\ UNCHANGED <<net, watch, known, kids, gens, pc>>

ExtKeysReq(t, w, path, fl) ==
  /\ pc[t] = <<"idle">> /\ Exists(w, path) /\ Count
  /\ obs' = <<"extkeys", w, path, ExtPub(Node(w, path), fl, WNet(w)),
              IF Node(w, path).prv THEN ExtPrv(Node(w, path), fl, WNet(w)) ELSE <<"none">>>>
  /\ UNCHANGED <<net, watch, known, kids, gens, pc>>

\* requests for private data: WIF, extended private key, BIP85, hardened child
PrivateReq(t, w, path, what) ==
  /\ pc[t] = <<"idle">> /\ Exists(w, path) /\ Count
  /\ obs' = <<"private", w, path, what,
              IF Node(w, path).prv
              THEN (CASE what = "wif" -> Wif(Node(w, path), WNet(w))
                      [] what = "xprv" -> ExtPrv(Node(w, path), "xpub", WNet(w))
                      [] what = "bip85" -> <<"bip85", Node(w, path).k>>)
              ELSE <<"error">>>>
  /\ UNCHANGED <<net, watch, known, kids, gens, pc>>

\* ---- paper-wallet request: generate(account, interval) re-derives the three account branches from the
\* shared master (so the master's children list grows); its result is a function of root key, network,
\* account and interval only (PaperWallet.tla describes the record tree itself)
PaperReq(t, acct, rows) ==
  /\ pc[t] = <<"idle">> /\ Count
  \* purposes 44', 49', 84' (toy numbering); the list is capped in the model to keep the state space small
  /\ kids' = [kids EXCEPT !["full"][<<>>] = IF Len(@) < 3 THEN @ \o <<5, 6, 7>> ELSE @]
  /\ obs' = <<"paper", "full", acct, rows, net>>
  /\ UNCHANGED <<net, watch, known, gens, pc>>

\* ---- address generator: the cursor lives in the generator, not in the node
GenNew(t, g, w, path, kind) ==
  /\ pc[t] = <<"idle">> /\ ~gens[g].live /\ Exists(w, path) /\ Len(path) < MaxDepth /\ Count
  /\ gens' = [gens EXCEPT ![g] = [live |-> TRUE, w |-> w, path |-> path, kind |-> kind, cur |-> 0, started |-> FALSE]]
  /\ obs' = <<"gen-new", g>>
  /\ UNCHANGED <<net, watch, known, kids, pc>>

GenStep(t, g, skip) ==     \* skip = 0: next(); skip >= 1: send(skip) (only after the first next())
  /\ pc[t] = <<"idle">> /\ gens[g].live /\ Count
  /\ (skip > 0 => gens[g].started)
  /\ LET gg == gens[g]
         at == IF ~gg.started THEN 0 ELSE gg.cur + (IF skip = 0 THEN 1 ELSE skip)
     IN /\ at \in IndexVals /\ at < 4           \* generators walk normal children
        /\ LET r == T32!CKD(0, Node(gg.w, gg.path), <<at>>)
           IN IF r.out = "ok"
              THEN /\ kids' = [kids EXCEPT ![gg.w][gg.path] = Append(@, at)]
                   /\ known' = [known EXCEPT ![gg.w] = @ \cup {gg.path \o <<at>>}]
                   /\ gens' = [gens EXCEPT ![g].cur = at, ![g].started = TRUE]
                   /\ obs' = <<"gen", g, gg.w, gg.path, at, Address(gg.kind, r.node, WNet(gg.w))>>
              ELSE /\ gens' = [gens EXCEPT ![g].live = FALSE]      \* the exception ends the generator
                   /\ obs' = <<"gen", g, gg.w, gg.path, at, r.out>>
                   /\ UNCHANGED <<kids, known>>
  /\ UNCHANGED <<net, watch, pc>>

\* ---- export / import: a watch-only wallet from the extended public key of any node
ImportWatch(t, path, fl, strnet) ==
  /\ pc[t] = <<"idle">> /\ ~watch.live /\ Exists("full", path) /\ Count
  \* the string carries the exporting wallet's network; the import reads it from the version prefix
  /\ strnet = net
  /\ watch' = [live |-> TRUE, src |-> path, ver |-> fl, net |-> strnet]
  /\ obs' = <<"import", path, fl, strnet>>
  /\ UNCHANGED <<net, known, kids, gens, pc>>

\* ---- children lists are bookkeeping: any rewrite of them must not matter
Scramble(w, path) ==
  /\ Exists(w, path) /\ kids[w][path] # <<>>
  /\ kids' = [kids EXCEPT ![w][path] = CHOOSE s \in {<<>>, Reverse(@), @ \o @} : s # @]
  /\ UNCHANGED <<net, watch, known, gens, pc, obs, ncalls>>

---------------------------------------------------------------------------
\* realistic wrong designs (enabled only by the negative-test configs)
\* (1) memoising ckd by child number in the children list: after a rewrite of that list a
\*     stale / other child comes back
DevMemo(t, w, path, i) ==
  /\ "memo" \in Deviations /\ pc[t] = <<"idle">> /\ Exists(w, path) /\ Len(path) < MaxDepth /\ Count
  /\ Len(kids[w][path]) > 0
  /\ obs' = <<"ckd", w, path, i, "ok", View(w, path \o <<kids[w][path][1]>>)>>   \* "first cached child"
  /\ UNCHANGED <<net, watch, known, kids, gens, pc>>
\* (2) the generator cursor kept on the node: two generators on one node disturb each other
DevSharedCursor(t, g) ==
  /\ "cursor" \in Deviations /\ pc[t] = <<"idle">> /\ gens[g].live /\ gens[g].started /\ Count
  /\ \E g2 \in GenIds \ {g} :
        /\ gens[g2].live /\ gens[g2].started /\ gens[g2].w = gens[g].w /\ gens[g2].path = gens[g].path
        /\ LET at == gens[g2].cur + 1
           IN /\ at \in IndexVals /\ at < 4 /\ T32!CKD(0, Node(gens[g].w, gens[g].path), <<at>>).out = "ok"
              /\ obs' = <<"gen", g, gens[g].w, gens[g].path, gens[g].cur + 1,
                          Address(gens[g].kind, T32!CKD(0, Node(gens[g].w, gens[g].path), <<at>>).node, WNet(gens[g].w))>>
              /\ gens' = [gens EXCEPT ![g].cur = at]
  /\ UNCHANGED <<net, watch, known, kids, pc>>
\* (3) a child that takes the class default network instead of its parent's
DevDefaultNet(t, w, path, kind) ==
  /\ "net" \in Deviations /\ pc[t] = <<"idle">> /\ Exists(w, path) /\ Len(path) >= 1 /\ Count
  /\ obs' = <<"address", w, path, kind, Address(kind, Node(w, path), "main")>>
  /\ UNCHANGED <<net, watch, known, kids, gens, pc>>

Deviant == \E t \in Threads, w \in Wallets, p \in Paths, i \in Idx, g \in GenIds, k \in Kinds :
              DevMemo(t, w, p, i) \/ DevSharedCursor(t, g) \/ DevDefaultNet(t, w, p, k)

Next ==
  \/ \E t \in Threads, w \in Wallets, p \in Paths :
        \/ \E i \in Idx : CkdCompute(t, w, p, i)
        \/ ByPath(t, w, p)
        \/ \E k \in {"p2pkh", "p2wpkh"} : AddrReq(t, w, p, k)
        \/ \E fl \in {"xpub", "zpub"} : ExtKeysReq(t, w, p, fl)
        \/ \E what \in {"wif", "xprv", "bip85"} : PrivateReq(t, w, p, what)
        \/ \E g \in GenIds, k \in {"p2wpkh"} : GenNew(t, g, w, p, k)
  \/ \E t \in Threads : CkdAppend(t)
  \/ \E t \in Threads, a \in {0, 1}, r \in {0, 2} : PaperReq(t, a, r)
  \/ \E t \in Threads, g \in GenIds, s \in {0, 2} : GenStep(t, g, s)
  \/ \E t \in Threads, p \in Paths, fl \in {"xpub", "zpub"}, n \in Nets : ImportWatch(t, p, fl, n)
  \/ \E w \in Wallets, p \in Paths : Scramble(w, p)
  \/ Deviant

Spec == Init /\ [][Next]_vars

\* a restriction of Next used only to GENERATE behaviours (simulation) in which generators and
\* single-step derivations on the same few nodes are dense
NextGenFocus ==
  \/ \E t \in Threads, w \in {"full"}, p \in {<<>>, <<1>>}, i \in Idx : CkdCompute(t, w, p, i)
  \/ \E t \in Threads : CkdAppend(t)
  \/ \E t \in Threads, g \in GenIds, p \in {<<>>, <<1>>} : GenNew(t, g, "full", p, "p2wpkh")
  \/ \E t \in Threads, g \in GenIds, s \in {0, 2} : GenStep(t, g, s)
  \/ \E t \in Threads : ByPath(t, "full", <<1>>)
  \/ \E t \in Threads, a \in {0, 1} : PaperReq(t, a, 2)
  \/ \E p \in {<<>>, <<1>>} : Scramble("full", p)
SpecGenFocus == Init /\ [][NextGenFocus]_vars

---------------------------------------------------------------------------
\* C13 Pure: every completed call returned the stateless reference value
Pure ==
  CASE obs[1] = "ckd" /\ Len(obs) = 6 -> F(obs[2], obs[3] \o obs[4]).out = "ok" /\ obs[6] = View(obs[2], obs[3] \o obs[4])
    [] obs[1] = "ckd" /\ Len(obs) = 5 -> F(obs[2], obs[3] \o obs[4]).out = obs[5] /\ obs[5] # "ok"
    [] obs[1] = "bypath" /\ obs[4] = "ok" -> obs[5] = View(obs[2], obs[3])
    [] obs[1] = "bypath" /\ obs[4] # "ok" -> F(obs[2], obs[3]).out = obs[4]
    [] obs[1] = "address" -> obs[5] = Address(obs[4], Node(obs[2], obs[3]), WNet(obs[2]))
    [] obs[1] = "gen" /\ Len(obs[6]) = 4 ->
          obs[6] = Address(obs[6][2], Node(obs[3], obs[4] \o <<obs[5]>>), WNet(obs[3]))
    [] OTHER -> TRUE

\* C13 ConcatIsSequence: deriving a concatenated path equals deriving its parts in sequence
ConcatIsSequence ==
  \A p \in known["full"] : \A n \in 0..Len(p) :
     LET a == SubSeq(p, 1, n)  b == SubSeq(p, n + 1, Len(p))
     IN F("full", a).out = "ok" => T32!DerivePath(0, Node("full", a), Lift(b)) = F("full", p)

\* C13 GeneratorConsecutive: a generator yields 0, 1, 2, ... and send(n) skips ahead by n
GeneratorConsecutive == [][\A g \in GenIds :
     (gens[g].live /\ gens'[g].live /\ gens'[g] # gens[g] /\ gens[g].started) =>
        (gens'[g].cur - gens[g].cur) \in {1, 2}]_vars
GeneratorStartsAtZero == \A g \in GenIds : gens[g].live /\ gens[g].started /\ obs[1] = "gen" /\ obs[2] = g => obs[5] = gens[g].cur

\* C13 RootUnchanged: no request alters root key material (roots are not even state here; the
\* network and the import source are the only inputs of F and never change once set)
RootUnchanged == [][net' = net /\ (watch.live => watch' = watch)]_vars

\* every object that exists is the reference node of its path (no stale or foreign node anywhere)
ObjectsAreReference == \A w \in Wallets : Live(w) => \A p \in known[w] : F(w, p).out = "ok"

\* C14 WatchAgrees / NoPrivateEver / HardenedRefused
WatchAgrees ==
  watch.live => \A q \in known["watch"] :
     LET full == T32!DerivePath(0, MasterNode(net), Lift(watch.src \o q))
     IN full.out = "ok" /\ T32!Neuter(full.node) = [Node("watch", q) EXCEPT !.net = net]
NoPrivateEver ==
  (obs[1] = "private" /\ obs[2] = "watch" => obs[5] = <<"error">>)
  /\ (obs[1] = "extkeys" /\ obs[2] = "watch" => obs[5] = <<"none">>)
  /\ (watch.live => \A q \in known["watch"] : ~Node("watch", q).prv)
HardenedRefused ==
  watch.live => \A q \in known["watch"] : \A j \in 1..Len(q) : q[j] < 4

\* C16 NoMix: every network-tagged output carries the wallet's own network; import takes it from the string
NoMix ==
  /\ (obs[1] = "address" => obs[5][3] = WNet(obs[2]))
  /\ (obs[1] = "gen" /\ Len(obs[6]) = 4 => obs[6][3] = WNet(obs[3]))
  /\ (obs[1] = "extkeys" => obs[4][3] = WNet(obs[2]) /\ (obs[5] # <<"none">> => obs[5][3] = WNet(obs[2])))
  /\ (obs[1] = "private" /\ obs[4] \in {"wif"} /\ obs[5] # <<"error">> => obs[5][2] = WNet(obs[2]))
  /\ (obs[1] = "paper" => obs[5] = net)
  /\ \A w \in Wallets : Live(w) => \A p \in known[w] : Node(w, p).net = WNet(w)
ImportNet == watch.live => watch.net = net

StateConstraint == ncalls <= MaxCalls
=============================================================================
