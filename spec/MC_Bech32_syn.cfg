CONSTANTS Mode = "syn"
L = 39
Cross = TRUE
Vers <- VersAll
Lens <- LensAll
INIT Init
NEXT Next
POSTCONDITION CountOK
