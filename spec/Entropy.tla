------------------------------- MODULE Entropy -------------------------------
(***************************************************************************)
(* System model for C08: where the entropy of a new wallet comes from.     *)
(*   os    the operating system's CSPRNG as a stream: every request        *)
(*         returns fresh, TLC-chosen symbols (2-bit symbols at toy scale)  *)
(*   prng  the state of the process-wide SEEDABLE generator                *)
(*   outs  the mnemonics produced so far, each with the OS symbols it drew *)
(* Actions: Reseed, PrngDraw (any other code using the seedable generator),*)
(* New(words).  Deviations (negative tests): NewFromPrng takes the entropy *)
(* from the seedable generator; NewShort draws one symbol too few;         *)
(* NewMasked clears the most significant symbol.                           *)
(***************************************************************************)
EXTENDS Naturals, Sequences, FiniteSets, TLC

CONSTANTS PrngStates, Lengths, Symbols, MaxSteps, Deviations

VARIABLES os, prng, outs, steps

vars == <<os, prng, outs, steps>>

\* toy scale: a "12-word" mnemonic needs 2 symbols of entropy, an "24-word" one 4
Need(w) == IF w = 12 THEN 2 ELSE 4
NextPrng(s) == (s + 1) % Cardinality(PrngStates)
\* sequences of 1..5 symbols, written out (so that the module is also typable by Apalache: spec/Apa_Entropy.tla)
\* @type: (Int, Int, Int, Int, Int, Int) => Seq(Int);
Mk(n, a, b, c, d, e) == IF n = 1 THEN <<a>> ELSE IF n = 2 THEN <<a, b>> ELSE IF n = 3 THEN <<a, b, c>>
                        ELSE IF n = 4 THEN <<a, b, c, d>> ELSE <<a, b, c, d, e>>
Draws(n) == {Mk(n, a, b, c, d, e) : a \in Symbols, b \in Symbols, c \in Symbols, d \in Symbols, e \in Symbols}
\* what the seedable generator would hand out for n symbols from state s
PrngSym(x) == IF x % 2 = 0 THEN 0 ELSE 3
PrngSymbols(s, n) == Mk(n, PrngSym(s + 1), PrngSym(s + 2), PrngSym(s + 3), PrngSym(s + 4), PrngSym(s + 5))

Init == os = <<>> /\ prng \in PrngStates /\ outs = <<>> /\ steps = 0

Tick == steps' = steps + 1 /\ steps < MaxSteps

Reseed(s) == prng' = s /\ Tick /\ UNCHANGED <<os, outs>>
PrngDraw == prng' = NextPrng(prng) /\ Tick /\ UNCHANGED <<os, outs>>

\* the conformant action: one OS request of exactly (or more than) the needed symbols; the
\* entropy is the leading Need(w) symbols of what the OS returned; the seedable generator is untouched
New(w, extra) ==
  /\ Tick
  /\ \E draw \in Draws(Need(w) + extra) :
        /\ os' = Append(os, draw)
        /\ outs' = Append(outs, [words |-> w, ent |-> SubSeq(draw, 1, Need(w)), from |-> Len(os) + 1, src |-> "os"])
  /\ prng' = prng

NewFromPrng(w) ==
  /\ "prng" \in Deviations /\ Tick
  /\ outs' = Append(outs, [words |-> w, ent |-> PrngSymbols(prng, Need(w)), from |-> 0, src |-> "prng"])
  /\ prng' = NextPrng(prng) /\ os' = os
NewShort(w) ==
  /\ "short" \in Deviations /\ Tick
  /\ \E draw \in Draws(Need(w) - 1) :
        /\ os' = Append(os, draw)
        /\ outs' = Append(outs, [words |-> w, ent |-> <<0>> \o draw, from |-> Len(os) + 1, src |-> "os"])
  /\ prng' = prng

Next == \/ \E s \in PrngStates : Reseed(s)
        \/ PrngDraw
        \/ \E w \in Lengths, x \in {0, 1} : New(w, x)
        \/ \E w \in Lengths : NewFromPrng(w) \/ NewShort(w)

Spec == Init /\ [][Next]_vars

---------------------------------------------------------------------------
\* at least 32*N/3 bits (Need symbols) are requested from the OS for every new mnemonic
EnoughBits == \A i \in DOMAIN outs : outs[i].src = "os" /\ outs[i].from >= 1 /\ Len(os[outs[i].from]) >= Need(outs[i].words)

\* the entropy is determined by the OS symbols drawn for it and by nothing else
FromOsOnly == \A i \in DOMAIN outs : outs[i].from >= 1 => outs[i].ent = SubSeq(os[outs[i].from], 1, Need(outs[i].words))

\* creating a mnemonic neither reads nor advances the seedable generator
NoPrngInfluence == [][(Len(outs') > Len(outs)) => prng' = prng]_vars

\* two new mnemonics never share an OS request
FreshEachTime == \A i, j \in DOMAIN outs : i # j => outs[i].from # outs[j].from

\* every entropy symbol, including the most significant one, takes every value
\* (a reachability statement: checked as "the negation is violated" by the harness)
SomeOutHasTopSymbolMax == \E i \in DOMAIN outs : outs[i].ent[1] = 3

StateConstraint == steps <= MaxSteps
=============================================================================
