---------------------------- MODULE Apa_Entropy ----------------------------
(***************************************************************************)
(* Entropy.tla for Apalache: the SAME module (INSTANCE), typed variables,  *)
(* the four-symbol alphabet, no deviation, a step bound that is never      *)
(* reached - and an inductive invariant, so that C08's "arbitrarily many   *)
(* consecutive calls" is not limited by TLC's step bound:                  *)
(*     Init => IndInv                (--init=Init    --length=0)           *)
(*     IndInv /\ Next => IndInv'     (--init=IndInit --length=1)           *)
(* IndInit starts from ANY state satisfying IndInv whose sequences have at *)
(* most GenBound elements (Apalache's Gen); every clause of IndInv relates *)
(* at most two outputs and one request, so the bound is a small-model      *)
(* argument, stated as an assumption in the evidence.                      *)
(* Negative test: the same step from IndInit with the "short" deviation    *)
(* enabled must break EnoughBits.                                          *)
(***************************************************************************)
EXTENDS Integers, Sequences, FiniteSets, Apalache

VARIABLES
  \* @type: Seq(Seq(Int));
  os,
  \* @type: Int;
  prng,
  \* @type: Seq({words: Int, ent: Seq(Int), from: Int, src: Str});
  outs,
  \* @type: Int;
  steps

\* @type: Set(Str);
NoDev == {}
\* @type: Set(Str);
ShortDev == {"short"}

E == INSTANCE Entropy WITH PrngStates <- {0, 1, 2}, Lengths <- {12, 24}, Symbols <- {0, 1, 2, 3},
                           MaxSteps <- 1000000000, Deviations <- NoDev
D == INSTANCE Entropy WITH PrngStates <- {0, 1, 2}, Lengths <- {12, 24}, Symbols <- {0, 1, 2, 3},
                           MaxSteps <- 1000000000, Deviations <- ShortDev

Init == E!Init
Next == E!Next
NextShort == D!Next

TypeOK == /\ prng \in {0, 1, 2} /\ steps >= 0
          /\ \A i \in DOMAIN outs : outs[i].words \in {12, 24} /\ outs[i].src = "os"
InRange == \A i \in DOMAIN outs : outs[i].from >= 1 /\ outs[i].from <= Len(os)
IndInv == TypeOK /\ InRange /\ E!EnoughBits /\ E!FromOsOnly /\ E!FreshEachTime

\* action invariant: creating a mnemonic neither reads nor advances the seedable generator (from ANY IndInv state)
PrngUntouched == Len(outs') > Len(outs) => prng' = prng

IndInit == os = Gen(4) /\ outs = Gen(4) /\ prng = Gen(1) /\ steps = Gen(1) /\ IndInv
=============================================================================
