------------------------------ MODULE MC_Seed ------------------------------
(***************************************************************************)
(* Bounded model for C03: the constructor routes of a wallet as actions    *)
(* over ABSTRACT text, with a TLC-CHOSEN idempotent normalisation map      *)
(* (every NFKD-like partition of a 4-element text alphabet), an abstract   *)
(* PBKDF2 and an abstract "Bitcoin seed" HMAC.  Two wallet slots are       *)
(* filled by arbitrary constructor calls; the invariants relate them.      *)
(***************************************************************************)
EXTENDS Naturals, FiniteSets, TLC

Texts == 1..4                 \* abstract mnemonic texts; text t "is" the sentence of entropy Ent(t)
Passes == {0, 1, 2}           \* 0 = empty passphrase; 1 and 2 may or may not normalise together
Nets == {"main", "test"}

VARIABLES nf,        \* the chosen normalisation on texts (idempotent)
          nfp,       \* ... and on passphrases
          w1, w2     \* wallet slots: [mk (master key material), net, route] or None

vars == <<nf, nfp, w1, w2>>

None == [none |-> TRUE]
Idem(S) == {f \in [S -> S] : \A x \in S : f[f[x]] = f[x]}

\* abstract primitives (injective on what they are applied to)
Kdf(pw, salt) == 1000 + 10 * pw + salt               \* seed from normalised text and passphrase
MasterOf(seed) == 7 * seed + 3                       \* (k, c) as one abstract value
SentenceOf(ent) == ent                               \* entropy e encodes text e (a normal-form text)
XprvOf(mk, net) == <<mk, net>>                       \* serialisation carries key material + network tag
ParseXprv(s) == s

SeedOf(t, p) == Kdf(nf[t], nfp[p])

\* the constructor routes
FromMnemonic(t, p, net) == [mk |-> MasterOf(SeedOf(t, p)), net |-> net, route |-> "mnemonic", t |-> t, p |-> p]
FromEntropy(e, p, net)  == FromMnemonic(SentenceOf(e), p, net)
FromSeed(seed, net)     == [mk |-> MasterOf(seed), net |-> net, route |-> "seed", t |-> 0, p |-> 0]
FromXprv(s)             == [mk |-> ParseXprv(s)[1], net |-> ParseXprv(s)[2], route |-> "xprv", t |-> 0, p |-> 0]

Init == /\ nf \in Idem(Texts) /\ nfp \in {f \in Idem(Passes) : f[0] = 0}
        /\ w1 = None /\ w2 = None

Build(w) ==
  \/ \E t \in Texts, p \in Passes, n \in Nets : w = FromMnemonic(t, p, n)
  \/ \E e \in {t \in Texts : nf[t] = t}, p \in Passes, n \in Nets : w = FromEntropy(e, p, n)
  \/ \E t \in Texts, p \in Passes, n \in Nets : w = FromSeed(SeedOf(t, p), n)
  \/ (w1 # None /\ \E n \in Nets : w = FromXprv(XprvOf(w1.mk, n)))

Fill1 == w1 = None /\ Build(w1') /\ UNCHANGED <<nf, nfp, w2>>
Fill2 == w1 # None /\ w2 = None /\ Build(w2') /\ UNCHANGED <<nf, nfp, w1>>
Next == Fill1 \/ Fill2

Both == w1 # None /\ w2 # None

\* text inputs with the same normal form give the same master key, whatever the network flag
NfkdInvariant ==
  Both /\ w1.route = "mnemonic" /\ w2.route = "mnemonic" /\ nf[w1.t] = nf[w2.t] /\ nfp[w1.p] = nfp[w2.p]
     => w1.mk = w2.mk
\* ... and different normal forms give different keys (the KDF sees the normalised text, nothing less)
Separation ==
  Both /\ w1.route = "mnemonic" /\ w2.route = "mnemonic" /\ (nf[w1.t] # nf[w2.t] \/ nfp[w1.p] # nfp[w2.p])
     => w1.mk # w2.mk
\* a wallet rebuilt from the serialised master key holds the same key material and the network of the string
RoutesAgree ==
  Both /\ w2.route = "xprv" => w2.mk = w1.mk
NetworkIrrelevant ==
  Both /\ w1.route \in {"mnemonic", "seed"} /\ w2.route \in {"mnemonic", "seed"} =>
     (\E t \in Texts, p \in Passes : w1.mk = MasterOf(SeedOf(t, p)) /\ w2.mk = MasterOf(SeedOf(t, p))) \/ w1.mk # w2.mk
=============================================================================
