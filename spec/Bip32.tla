-------------------------------- MODULE Bip32 --------------------------------
(***************************************************************************)
(* BIP32 key-tree arithmetic, parametric in its primitives.                *)
(*                                                                         *)
(* The primitives are OPERATOR CONSTANTS taking a context cx:              *)
(*   Hmac(cx, key, msg)   HMAC-SHA512, 2*KeyLen bytes                      *)
(*   PtC(cx, k)           compressed SEC of k*G for a scalar 0 < k < N     *)
(*   PtAdd(cx, P, Q)      SEC of P + Q; <<>> is the point at infinity      *)
(*   H160(cx, x)          RIPEMD160(SHA256(x))                             *)
(* In the bounded models cx carries the PRF output TLC chose for the step  *)
(* and the group is a toy group of prime order N; in trace validation cx   *)
(* is the recorded event and the operators are oracle-table lookups.  The  *)
(* operator text below is the same in both uses.                           *)
(*                                                                         *)
(* Scalars are KeyLen-byte sequences, child numbers IdxLen-byte sequences, *)
(* hardened iff the first byte is >= HardMin.                              *)
(***************************************************************************)
EXTENDS Bytes

CONSTANTS KeyLen, IdxLen, HardMin, N,
          Hmac(_, _, _), PtC(_, _), PtAdd(_, _, _), H160(_, _)

IsHard(i) == i[1] >= HardMin
ValidScalar(k) == Len(k) = KeyLen /\ ~IsZero(k) /\ Less(k, N)

SeedKey == <<66,105,116,99,111,105,110,32,115,101,101,100>>      \* "Bitcoin seed"

Ok(node)   == [out |-> "ok", node |-> node, why |-> "ok"]
Invalid(w) == [out |-> "invalid", node |-> <<>>, why |-> w]
Refused    == [out |-> "refused", node |-> <<>>, why |-> "hardened-from-public"]
Unjudged(w) == [out |-> "unjudged", node |-> <<>>, why |-> w]

Fingerprint(cx, K) == Take(H160(cx, K), 4)

PrvNode(cx, k, c, depth, idx, pfp, net) ==
  [prv |-> TRUE, k |-> k, K |-> PtC(cx, k), c |-> c, depth |-> depth, idx |-> idx,
   pfp |-> pfp, net |-> net]
PubNode(K, c, depth, idx, pfp, net) ==
  [prv |-> FALSE, K |-> K, c |-> c, depth |-> depth, idx |-> idx, pfp |-> pfp, net |-> net]
Neuter(n) == PubNode(n.K, n.c, n.depth, n.idx, n.pfp, n.net)

(***************************************************************************)
(* Master key generation.                                                  *)
(***************************************************************************)
Master(cx, seed, net) ==
  LET I == Hmac(cx, SeedKey, seed)
      IL == Take(I, KeyLen)
      IR == Drop(I, KeyLen)
  IN IF IsZero(IL) THEN Invalid("master-zero")
     ELSE IF ~Less(IL, N) THEN Invalid("master-IL>=n")
     ELSE Ok(PrvNode(cx, IL, IR, 0, Zeros(IdxLen), Zeros(4), net))

(***************************************************************************)
(* CKDpriv.  The message the PRF is asked about is part of the definition: *)
(* hardened children commit to the parent PRIVATE key, normal children to  *)
(* the parent's compressed PUBLIC key.                                     *)
(***************************************************************************)
PrivData(cx, par, i) == IF IsHard(i) THEN <<0>> \o par.k \o i ELSE PtC(cx, par.k) \o i

CKDpriv(cx, par, i) ==
  LET I == Hmac(cx, par.c, PrivData(cx, par, i))
      IL == Take(I, KeyLen)
      IR == Drop(I, KeyLen)
  IN IF ~Less(IL, N) THEN Invalid("IL>=n")
     ELSE LET ki == AddModN(IL, par.k, N)
          IN IF IsZero(ki) THEN Invalid("child-zero")
             ELSE Ok(PrvNode(cx, ki, IR, par.depth + 1, i, Fingerprint(cx, par.K), par.net))

(***************************************************************************)
(* CKDpub.                                                                 *)
(***************************************************************************)
PubData(par, i) == par.K \o i

CKDpub(cx, par, i) ==
  IF IsHard(i) THEN Refused
  ELSE
  LET I == Hmac(cx, par.c, PubData(par, i))
      IL == Take(I, KeyLen)
      IR == Drop(I, KeyLen)
  IN IF ~Less(IL, N) THEN Invalid("IL>=n")
     ELSE IF IsZero(IL) THEN Unjudged("IL=0")     \* valid per BIP32 (Ki = Kpar), refused by common libraries
     ELSE LET Ki == PtAdd(cx, PtC(cx, IL), par.K)
          IN IF Ki = <<>> THEN Invalid("infinity")
             ELSE Ok(PubNode(Ki, IR, par.depth + 1, i, Fingerprint(cx, par.K), par.net))

\* either kind of node
CKD(cx, par, i) == IF par.prv THEN CKDpriv(cx, par, i) ELSE CKDpub(cx, par, i)

(***************************************************************************)
(* Path derivation: the left fold of CKD; the first non-ok outcome wins.   *)
(***************************************************************************)
DerivePath(cx, root, path) ==
  FoldLeft(LAMBDA acc, i : IF acc.out # "ok" THEN acc ELSE CKD(cx, acc.node, i), Ok(root), path)
=============================================================================
