--------------------------------- MODULE Cli ---------------------------------
(***************************************************************************)
(* System model of the command line (C20): argument vector -> parse ->     *)
(* build wallet -> generate -> filter -> emit, over a file-system state.   *)
(* Argument values are WITNESS CLASSES on both sides of every validator    *)
(* bound; the harness maps each class to a concrete value.                 *)
(*                                                                         *)
(* The model describes a CONFORMANT command line.  Where the statement is  *)
(* silent about whether a value must be accepted (e.g. account 2^31-1,     *)
(* blank-padded mnemonics) the class verdict is "either" and both branches *)
(* are explored.  The observable outcome of a run is the record `out`; the *)
(* four properties are predicates over (argv, fs, out) and are re-used     *)
(* verbatim by Trace_Cli.tla on observations of the real program.          *)
(***************************************************************************)
EXTENDS Naturals, Sequences, FiniteSets, TLC

Commands == {"none", "new", "from-master-xprv", "from-mnemonic", "from-bip39-seed", "from-entropy-hex"}

\* ---- witness classes ---------------------------------------------------
\* "+5", " 7", "1_0": decorated numerals that Python's int() reads as 5, 7, 10 - a command line may refuse them; if it
\* takes them, the wallet is the one for that number
AccountClasses == {"default", "0", "5", "2^31-2", "2^31-1", "2^31", "-1", "x", "+5", " 7", "1_0"}
AccountVerdict(a) == CASE a \in {"default", "0", "5", "2^31-2"} -> "accept"
                       [] a \in {"2^31-1", "+5", " 7", "1_0"} -> "either"   \* 2^31-1: a legal hardened account; the program is stricter
                       [] OTHER -> "reject"

BoundClasses == {"-1", "0", "1", "3", "2^31-1", "2^31", "2^31+1", "2^32-2", "2^32-1", "x"}
\* position of a bound on the number line (for comparing two classes); "x" and "-1" are not numbers >= 0
Rank(b) == CASE b = "0" -> 0 [] b = "1" -> 1 [] b = "3" -> 3 [] b = "2^31-1" -> 10 [] b = "2^31" -> 11
             [] b = "2^31+1" -> 12 [] b = "2^32-2" -> 13 [] b = "2^32-1" -> 14 [] OTHER -> 0
IsNumber(b) == b \notin {"-1", "x"}
\* does range(start, end) contain an index >= 2^31 ?
HasHardenedRow(s, e) == IsNumber(s) /\ IsNumber(e) /\ Rank(e) > Rank(s) /\ Rank(e) >= 12
IntervalVerdict(s, e) ==
  IF ~IsNumber(s) \/ ~IsNumber(e) THEN "reject"
  ELSE IF HasHardenedRow(s, e) THEN "reject"                 \* would print hardened address rows
  ELSE IF Rank(s) <= 11 /\ Rank(e) <= 11 THEN "accept"
  ELSE "either"                                              \* empty range with an over-large bound
NRowsClass(s, e) == IF IsNumber(s) /\ IsNumber(e) /\ Rank(e) > Rank(s) THEN "some" ELSE "none"

\* the path given to --file, as a state of the file system (the working directory holds an existing file, a directory
\* `sub` with another existing file, and links):
\*   symlink-to-file        link in the working directory, relative target, to the existing file next to it
\*   symlink-rel-in-subdir  sub/link -> "keep.json": relative target resolved from the LINK's directory, not from the cwd
\*   symlink-up             sub/link -> "../exist.json"
\*   symlink-abs-to-file    link with an absolute target
\*   symlink-to-dir         link to a directory
\*   existing-dotdot        the existing file spelled sub/../exist.json
\*   absent-in-subdir       a new name inside the existing directory
\*   absent-trailing-slash  a new name followed by '/': nothing exists there, and nothing can be opened there
\*   symlink-loop           a link that points to itself
\*   dangling-into-missing-dir  a link whose target lies in a directory that does not exist
\*   absent-no-extension    a new name without a suffix, next to existing files called <name>.json / <name>.txt
\*   existing-empty         an existing file of zero bytes (a placeholder somebody made): it exists
FileClasses == {"none", "absent", "existing", "dir", "symlink-to-file", "dangling-symlink", "parent-missing", "empty-string",
                "symlink-rel-in-subdir", "symlink-up", "symlink-abs-to-file", "symlink-to-dir", "existing-dotdot", "absent-in-subdir",
                "absent-trailing-slash", "symlink-loop", "dangling-into-missing-dir", "absent-no-extension",
                "existing-empty"}
ExistingClasses == {"existing", "existing-empty", "dir", "symlink-to-file", "symlink-rel-in-subdir", "symlink-up", "symlink-abs-to-file",
                    "symlink-to-dir", "existing-dotdot"}
CreatableClasses == {"absent", "dangling-symlink", "absent-in-subdir", "absent-no-extension"}
FileVerdict(f) == CASE f \in {"none", "absent", "absent-in-subdir", "absent-no-extension"} -> "accept"
                    [] f = "dangling-symlink" -> "either"    \* nothing exists at the path; creating the target is not overwriting
                    [] OTHER -> "reject"

\* --password: the passphrase as typed is part of the source secret AND of the master block that is echoed
\* "at-existing-file": the passphrase is '@' followed by the name of a file that exists in the working directory
PwClasses == {"none", "ascii", "nfkd-sensitive", "blank-padded", "empty", "json-like", "at-existing-file"}
TakesPassword(c) == c \in {"new", "from-mnemonic", "from-entropy-hex"}
PwVerdict(c, w) == IF w = "none" \/ TakesPassword(c) THEN "accept" ELSE "reject"     \* unknown option of that sub-command

\* command argument classes and what they lead to: "ok", "reject" (parser), "raise" (wallet
\* construction or generation fails), "either"
ArgClasses(c) ==
  CASE c = "none" -> {"-"}
    [] c = "new" -> {"len-default", "len-12", "len-24", "len-11", "len-25"}
    [] c = "from-master-xprv" -> {"master-xprv", "master-tprv", "child-xprv", "xpub", "110-chars", "112-chars", "bad-checksum", "unknown-version"}
    [] c = "from-mnemonic" -> {"12-words", "15-words", "18-words", "21-words", "24-words", "11-words", "13-words", "25-words",
                               "12-words-padded", "12-nonlist-words"}
    [] c = "from-bip39-seed" -> {"128-hex", "126-hex", "130-hex", "128-nonhex"}
    [] c = "from-entropy-hex" -> {"32-hex", "40-hex", "48-hex", "56-hex", "64-hex", "31-hex", "33-hex", "65-hex", "32-nonhex", "32-chars-with-blanks"}
ArgVerdict(c, a) ==
  CASE a \in {"len-11", "len-25", "110-chars", "112-chars", "11-words", "13-words", "25-words", "126-hex", "130-hex",
              "31-hex", "33-hex", "65-hex"} -> "reject"
    [] a \in {"xpub", "bad-checksum", "unknown-version", "128-nonhex", "32-nonhex", "32-chars-with-blanks"} -> "raise"
    [] a \in {"12-words-padded"} -> "either"
    [] OTHER -> "ok"
\* network of the produced wallet: from the key for from-master-xprv, else from --testnet
NetOf(c, a, testnet) == IF c = "from-master-xprv" THEN (IF a = "master-tprv" THEN "test" ELSE "main")
                        ELSE IF testnet THEN "test" ELSE "main"

\* ---- state -------------------------------------------------------------
VARIABLES argv, pc, out, fs

vars == <<argv, pc, out, fs>>

NoOut == [exit |-> 99, stdout |-> "empty", created |-> FALSE, overwrote |-> FALSE, rows |-> "none", net |-> "none", filtered |-> FALSE]

Init == /\ pc = "Start" /\ out = NoOut
        /\ \E c \in Commands : \E a \in ArgClasses(c) :
             \E f \in FileClasses, t \in BOOLEAN, p \in BOOLEAN, x \in AccountClasses, s \in BoundClasses, e \in BoundClasses :
               \* vary the global options one group at a time around a default vector
               /\ \/ (x = "default" /\ s = "0" /\ e = "3")
                  \/ (f = "none" /\ ~t /\ ~p /\ s = "0" /\ e = "3")
                  \/ (f = "none" /\ ~t /\ ~p /\ x = "default")
               /\ \E h \in BOOLEAN, w \in PwClasses :
                    /\ (w # "none" => x = "default" /\ s = "0" /\ e = "3" /\ f \in {"none", "absent"} /\ ~h)
                    /\ argv = [file |-> f, testnet |-> t, paranoia |-> p, account |-> x, start |-> s, end |-> e,
                               cmd |-> c, arg |-> a, help |-> h /\ x = "default" /\ s = "0" /\ e = "3", pw |-> w]
        /\ fs = argv.file

Accepts(v) == v \in {"accept", "ok"}
Maybe(v) == v = "either"

\* argument parsing: every validator is a named conjunct; a class with verdict "either" may go both ways
\* --help / -h anywhere: usage on stdout, status 0, nothing else happens (argparse acts on it as soon
\* as it is parsed; options before it may already have been validated and refused)
Help ==
  /\ pc = "Start" /\ argv.help
  /\ \/ pc' = "Done" /\ out' = [out EXCEPT !.exit = 0, !.stdout = "help"]
     \/ FileVerdict(argv.file) # "accept" /\ pc' = "Done" /\ out' = [out EXCEPT !.exit = 2]
  /\ UNCHANGED <<argv, fs>>

ParseArgs ==
  /\ pc = "Start" /\ ~argv.help
  /\ \E okFile \in BOOLEAN, okAcct \in BOOLEAN, okIv \in BOOLEAN, okArg \in BOOLEAN, okPw \in BOOLEAN :
       /\ okPw = (PwVerdict(argv.cmd, argv.pw) = "accept")
       /\ (okFile => FileVerdict(argv.file) \in {"accept", "either"}) /\ (~okFile => FileVerdict(argv.file) \in {"reject", "either"})
       /\ (okAcct => AccountVerdict(argv.account) \in {"accept", "either"}) /\ (~okAcct => AccountVerdict(argv.account) \in {"reject", "either"})
       /\ (okIv => IntervalVerdict(argv.start, argv.end) \in {"accept", "either"}) /\ (~okIv => IntervalVerdict(argv.start, argv.end) \in {"reject", "either"})
       /\ (okArg => ArgVerdict(argv.cmd, argv.arg) \in {"ok", "either", "raise"}) /\ (~okArg => ArgVerdict(argv.cmd, argv.arg) \in {"reject", "either"})
       /\ IF okFile /\ okAcct /\ okIv /\ okArg /\ okPw
          THEN pc' = "Parsed" /\ out' = out
          ELSE pc' = "Done" /\ out' = [out EXCEPT !.exit = 2]          \* usage error: nothing on stdout, nothing created
  /\ UNCHANGED <<argv, fs>>

NoCommand ==
  /\ pc = "Parsed" /\ argv.cmd = "none"
  /\ pc' = "Done" /\ out' = [out EXCEPT !.exit = 1, !.stdout = "help"]   \* help text is not wallet data
  /\ UNCHANGED <<argv, fs>>

BuildAndGenerate ==
  /\ pc = "Parsed" /\ argv.cmd # "none"
  /\ IF ArgVerdict(argv.cmd, argv.arg) = "raise"
     THEN pc' = "Done" /\ out' = [out EXCEPT !.exit = 1]                 \* traceback: non-zero, nothing emitted
     ELSE pc' = "Generated" /\ out' = [out EXCEPT !.rows = NRowsClass(argv.start, argv.end),
                                                  !.net = NetOf(argv.cmd, argv.arg, argv.testnet)]
  /\ UNCHANGED <<argv, fs>>

Filter ==
  /\ pc = "Generated"
  /\ pc' = "Filtered" /\ out' = [out EXCEPT !.filtered = argv.paranoia]
  /\ UNCHANGED <<argv, fs>>

Emit ==
  /\ pc = "Filtered"
  /\ IF argv.file = "none"
     THEN out' = [out EXCEPT !.exit = 0, !.stdout = IF out.filtered THEN "wallet-filtered" ELSE "wallet"] /\ fs' = fs
     ELSE out' = [out EXCEPT !.exit = 0, !.created = TRUE] /\ fs' = "created"
  /\ pc' = "Done" /\ UNCHANGED argv

Next == Help \/ ParseArgs \/ NoCommand \/ BuildAndGenerate \/ Filter \/ Emit

Spec == Init /\ [][Next]_vars

---------------------------------------------------------------------------
\* the four properties, over a finished run
Done == pc = "Done"

FailureIsSilent(a, o, fsBefore, fsAfter) ==
  /\ (o.exit # 0 => o.stdout \in {"empty", "help"} /\ ~o.created /\ fsAfter = fsBefore)
  /\ (a.help /\ o.exit = 0 => o.stdout = "help" /\ ~o.created /\ fsAfter = fsBefore)

SuccessEqualsApi(a, o) ==
  o.exit = 0 /\ ~a.help =>
     /\ (a.file = "none" => o.stdout = (IF a.paranoia THEN "wallet-filtered" ELSE "wallet") /\ ~o.created)
     /\ (a.file # "none" => o.stdout = "empty" /\ o.created)
     /\ o.net = NetOf(a.cmd, a.arg, a.testnet)

NeverOverwrite(a, o) == ~o.overwrote /\ (a.file \in ExistingClasses => ~o.created)

Bip44Shaped(a, o) == o.exit = 0 => ~HasHardenedRow(a.start, a.end)

\* an option the sub-command does not have is a usage error, never silently dropped
PasswordHonoured(a, o) == o.exit = 0 /\ ~a.help => PwVerdict(a.cmd, a.pw) = "accept"

InvFailureIsSilent == Done => FailureIsSilent(argv, out, argv.file, fs)
InvSuccessEqualsApi == Done => SuccessEqualsApi(argv, out)
InvNeverOverwrite == NeverOverwrite(argv, out) /\ (fs # argv.file => fs = "created" /\ argv.file \in CreatableClasses)
InvBip44Shaped == Done => Bip44Shaped(argv, out)
InvPasswordHonoured == Done => PasswordHonoured(argv, out)
ExitIsSet == Done => out.exit \in {0, 1, 2}
=============================================================================
