------------------------------ MODULE KeyCodec ------------------------------
(***************************************************************************)
(* WIF and SEC encodings of keys (payload level; Base58Check is Base58.tla)*)
(***************************************************************************)
EXTENDS Bytes

WifVer(net) == IF net = "test" THEN 239 ELSE 128       \* ef / 80

\* payload of the WIF string (before Base58Check)
WifPayload(k, compressed, net) ==
  <<WifVer(net)>> \o k \o (IF compressed THEN <<1>> ELSE <<>>)

\* reading a WIF payload back: [ok, k, compressed, net]
WifParse(p, KeyLen) ==
  IF Len(p) = KeyLen + 1 /\ p[1] \in {128, 239}
  THEN [ok |-> TRUE, k |-> SubSeq(p, 2, KeyLen + 1), compressed |-> FALSE,
        net |-> IF p[1] = 239 THEN "test" ELSE "main"]
  ELSE IF Len(p) = KeyLen + 2 /\ p[1] \in {128, 239} /\ p[KeyLen + 2] = 1
  THEN [ok |-> TRUE, k |-> SubSeq(p, 2, KeyLen + 1), compressed |-> TRUE,
        net |-> IF p[1] = 239 THEN "test" ELSE "main"]
  ELSE [ok |-> FALSE, k |-> <<>>, compressed |-> FALSE, net |-> "main"]

\* secp256k1 group order and field prime, big-endian
SecpN == <<255,255,255,255,255,255,255,255,255,255,255,255,255,255,255,254,
           186,174,220,230,175,72,160,59,191,210,94,140,208,54,65,65>>
SecpP == <<255,255,255,255,255,255,255,255,255,255,255,255,255,255,255,255,
           255,255,255,255,255,255,255,255,255,255,255,254,255,255,252,47>>

ValidScalar32(k) == Len(k) = 32 /\ ~IsZero(k) /\ Less(k, SecpN)

\* shape of a standard SEC encoding (curve membership is an oracle question)
SecShape(s) == \/ (Len(s) = 33 /\ s[1] \in {2, 3})
               \/ (Len(s) = 65 /\ s[1] = 4)
=============================================================================
