CONSTANTS Nets = {"main", "test"}
Accounts = {0, 1, 2}
Bounds = {0, 1, 2, 3}
MasterKeys = {1, 3, 5, 7, 9, 11}
MinDerivable = 100
INIT Init
NEXT Next
INVARIANT OneRowPerIndexInOrder
INVARIANT RowIsOneKey
INVARIANT PurposeCoinVersionAligned
INVARIANT NoSecretLeaf
INVARIANT NoSecretString
INVARIANT PublicPreserved
INVARIANT NoMix
