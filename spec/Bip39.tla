-------------------------------- MODULE Bip39 --------------------------------
(***************************************************************************)
(* BIP39: entropy <-> word indices (checksum = leading bits of SHA-256),   *)
(* mnemonic + passphrase -> seed.  Parametric in the word width and the    *)
(* entropy sizes so that the bounded model can enumerate EVERY entropy     *)
(* value of a scaled instance, while trace validation uses 11-bit words    *)
(* and 128..256-bit entropy.  Hash / KDF / normalisation are operator      *)
(* constants taking a context (oracle tables in trace validation).         *)
(***************************************************************************)
EXTENDS Bytes

CONSTANTS WordBits,          \* 11
          CsRatio,           \* 32: one checksum bit per CsRatio entropy bits
          EntSizes,          \* {128,160,192,224,256}
          Sha(_, _), Nfkd(_, _), Pbkdf2(_, _, _, _, _)

EntBits(ent) == 8 * Len(ent)
LegalEntropy(ent) == EntBits(ent) \in EntSizes
CsBits(ent) == EntBits(ent) \div CsRatio
WordCount(ent) == (EntBits(ent) + CsBits(ent)) \div WordBits

\* [ok, idx]: the sentence as word indices
Sentence(cx, ent) ==
  IF ~LegalEntropy(ent) THEN [ok |-> FALSE, idx |-> <<>>]
  ELSE LET bits == ToBits(ent) \o Take(ToBits(Sha(cx, ent)), CsBits(ent))
       IN [ok |-> TRUE, idx |-> Regroup(bits, WordBits)]

\* inverse direction: indices -> [ent, cs (bits)]; defined when the bit count fits a legal size
Decode(idx) ==
  LET bits == Flatten([i \in 1..Len(idx) |-> NatToBits(idx[i], WordBits)])
      total == Len(bits)
      ent == (total * CsRatio) \div (CsRatio + 1)
  IN [ent |-> FromBits(SubSeq(bits, 1, ent)), cs |-> SubSeq(bits, ent + 1, total)]

(***************************************************************************)
(* UTF-8 of a code-point sequence.                                         *)
(***************************************************************************)
Utf8Char(c) ==
  IF c < 128 THEN <<c>>
  ELSE IF c < 2048 THEN <<192 + (c \div 64), 128 + (c % 64)>>
  ELSE IF c < 65536 THEN <<224 + (c \div 4096), 128 + ((c \div 64) % 64), 128 + (c % 64)>>
  ELSE <<240 + (c \div 262144), 128 + ((c \div 4096) % 64), 128 + ((c \div 64) % 64), 128 + (c % 64)>>
Utf8(cps) == Flatten([i \in 1..Len(cps) |-> Utf8Char(cps[i])])

MnemonicSalt == <<109,110,101,109,111,110,105,99>>         \* "mnemonic"

\* seed = PBKDF2-HMAC-SHA512(password = NFKD(mnemonic), salt = "mnemonic" || NFKD(passphrase), 2048, 64)
Seed(cx, mnemonic, passphrase) ==
  Pbkdf2(cx, Utf8(Nfkd(cx, mnemonic)), MnemonicSalt \o Utf8(Nfkd(cx, passphrase)), 2048, 64)

\* words joined by single spaces
JoinWords(ws) == IF Len(ws) = 0 THEN <<>>
                 ELSE FoldLeft(LAMBDA acc, w : acc \o <<32>> \o w, ws[1], SubSeq(ws, 2, Len(ws)))

(***************************************************************************)
(* Hex text (code points) -> bytes, the way the API receives entropy.      *)
(* [kind, bytes]: "clean" = pairs of hex digits only; "spaced" = becomes   *)
(* clean after dropping ASCII blanks between pairs; "bad" otherwise.       *)
(***************************************************************************)
HexVal(c) == IF c >= 48 /\ c <= 57 THEN c - 48
             ELSE IF c >= 97 /\ c <= 102 THEN c - 87
             ELSE IF c >= 65 /\ c <= 70 THEN c - 55 ELSE 16
IsHexBlank(c) == c \in {9, 10, 11, 12, 13, 32}
PairsToBytes(cs) == [i \in 1..(Len(cs) \div 2) |-> 16 * HexVal(cs[2 * i - 1]) + HexVal(cs[2 * i])]
AllHex(cs) == \A i \in 1..Len(cs) : HexVal(cs[i]) < 16
HexParse(str) ==
  IF AllHex(str) /\ Len(str) % 2 = 0 THEN [kind |-> "clean", bytes |-> PairsToBytes(str)]
  ELSE LET stripped == SelectSeq(str, LAMBDA c : ~IsHexBlank(c))
       IN IF AllHex(stripped) /\ Len(stripped) % 2 = 0 /\ (\E i \in 1..Len(str) : IsHexBlank(str[i]))
          THEN [kind |-> "spaced", bytes |-> PairsToBytes(stripped)]
          ELSE [kind |-> "bad", bytes |-> <<>>]
=============================================================================
