------------------------------ MODULE MC_Wire ------------------------------
(***************************************************************************)
(* Bounded exhaustive model for C19.                                       *)
(*  (a) the parser automaton of Wire.tla is driven byte by byte with every *)
(*      tape over TapeBytes up to MaxTape bytes; because the tape is fed   *)
(*      one byte per step the state sequence contains the verdict for      *)
(*      every prefix of every tape;                                        *)
(*  (b) "ser" states: every element length 0..521 (content abstract) and   *)
(*      small multi-command scripts are serialised and parsed back;        *)
(*  (c) "vi" states: varint boundary values are encoded and read back.     *)
(***************************************************************************)
EXTENDS Wire, TLC

CONSTANTS TapeBytes, MaxTape, LenSet

VARIABLES mode, st, tape, x

vars == <<mode, st, tape, x>>

LenAll == 0..521
LenQuick == (0..80) \cup (250..260) \cup (515..521)

Elem(n) == [i \in 1..n |-> i % 251]

SmallScripts ==
  LET C == {[op |-> 0], [op |-> 81], [op |-> 172], [d |-> <<7>>], [d |-> Elem(75)],
            [d |-> Elem(76)], [d |-> Elem(255)], [d |-> Elem(256)], [d |-> Elem(520)]}
  IN {<<>>} \cup {<<a>> : a \in C} \cup {<<a, b>> : a \in C, b \in C}

\* varint boundary values as LE byte sequences
VarintValues ==
  { <<>>, <<1>>, <<252>>, <<253>>, <<254>>, <<255>>, <<0, 1>>, <<255, 255>>, <<0, 0, 1>>,
    <<1, 0, 1>>, <<255, 255, 255, 255>>, <<254, 255, 255, 255>>, <<0, 0, 0, 0, 1>>, <<1, 0, 0, 0, 1>>,
    <<255,255,255,255,255,255,255,255>>, <<254,255,255,255,255,255,255,255>>,
    <<0,0,0,0,0,0,0,0,1>>, <<1,0,0,0,0,0,0,0,1>>, <<0,0,0,0,0,0,0,128>> }

Init == \/ /\ mode = "parse" /\ st = ScriptInit /\ tape = <<>> /\ x = 0
        \/ /\ mode = "len" /\ x \in LenSet /\ st = ScriptInit /\ tape = <<>>
        \/ /\ mode = "ser" /\ x \in SmallScripts /\ st = ScriptInit /\ tape = <<>>
        \/ /\ mode = "vi" /\ x \in VarintValues /\ st = ScriptInit /\ tape = <<>>

Feed == /\ mode = "parse"
        /\ Len(tape) < MaxTape
        /\ \E b \in TapeBytes : /\ tape' = Append(tape, b)
                                /\ st' = ScriptStep(st, b)
        /\ UNCHANGED <<mode, x>>

Next == Feed

---------------------------------------------------------------------------
\* (a) parser accounting
TypeOK == st.phase \in {"len0", "lenN", "op", "pd1", "pd2a", "pd2b", "data", "done", "fail"}

AcceptConsumesExactlyDeclared ==
  mode = "parse" /\ st.phase = "done" =>
     /\ st.count = st.declared
     /\ st.used = st.vlen + st.declared
     /\ st.used <= Len(tape)

\* the automaton and the fold (the form used by trace validation) agree
FoldAgrees == mode = "parse" => ParseScript(tape).phase = st.phase /\ ParseScript(tape).cmds = st.cmds

\* an accepted tape re-serialises to exactly the consumed bytes when every
\* push in it is in shortest standard form (general tapes may use PUSHDATA1 for short data)
AcceptedAccountsForBytes ==
  mode = "parse" /\ st.phase = "done" =>
     LET raw == Flatten([i \in 1..Len(st.cmds) |->
                          IF IsOp(st.cmds[i]) THEN <<st.cmds[i].op>> ELSE st.cmds[i].d])
     IN Len(raw) <= st.declared

\* no strict prefix of an accepted tape is accepted: "done" is entered exactly once,
\* by the step that consumes byte number vlen+declared
NoEarlyAccept ==
  mode = "parse" /\ st.phase # "done" => ~ScriptAccept(st)

\* a failed parse never turns into an accepted one by feeding more bytes
FailIsFinal == [][st.phase = "fail" => st'.phase = "fail"]_vars
DoneIsFinal == [][st.phase = "done" => st' = st]_vars

---------------------------------------------------------------------------
\* (b) push-header thresholds on every length 0..521
HeaderShape ==
  mode = "len" =>
    LET h == PushHeader(x)
    IN /\ (x \in 1..75    => h.ok /\ h.bytes = <<x>>)
       /\ (x \in 76..255  => h.ok /\ h.bytes = <<76, x>>)
       /\ (x \in 256..520 => h.ok /\ h.bytes = <<77, x % 256, x \div 256>>)
       /\ (x > 520 => ~h.ok)
       /\ (x = 0 => ~h.ok)

LenRoundTrip ==
  mode = "len" /\ x \in 1..520 =>
    LET ser == SerializeScript(<<[op |-> 118], [d |-> Elem(x)], [op |-> 172]>>)
        p == ParseScript(ser.bytes)
    IN /\ ser.ok /\ p.ok
       /\ p.cmds = <<[op |-> 118], [d |-> Elem(x)], [op |-> 172]>>
       /\ p.used = Len(ser.bytes)
       \* every strict prefix is rejected
       /\ \A n \in 0..(Len(ser.bytes) - 1) : ~ParseScript(SubSeq(ser.bytes, 1, n)).ok

ScriptRoundTrip ==
  mode = "ser" =>
    LET ser == SerializeScript(x)
        p == ParseScript(ser.bytes)
    IN ser.ok /\ p.ok /\ p.cmds = x /\ p.used = Len(ser.bytes)

---------------------------------------------------------------------------
\* (c) varints
VarintRoundTrip ==
  mode = "vi" =>
    LET e == EncVarint(x)
    IN IF Len(TrimLE(x)) > 8 THEN ~e.ok
       ELSE /\ e.ok
            /\ ReadVarint(e.bytes).ok /\ ReadVarint(e.bytes).val = TrimLE(x)
            /\ ReadVarint(e.bytes).used = Len(e.bytes)
            /\ Len(e.bytes) \in {1, 3, 5, 9}
            \* shortest form
            /\ (Len(e.bytes) = 3 => ~(Len(TrimLE(x)) <= 1 /\ (TrimLE(x) = <<>> \/ TrimLE(x)[1] < 253)))
            /\ (Len(e.bytes) = 5 => Len(TrimLE(x)) > 2)
            /\ (Len(e.bytes) = 9 => Len(TrimLE(x)) > 4)
            \* every strict prefix of the encoding is a short read
            /\ \A n \in 0..(Len(e.bytes) - 1) : ~ReadVarint(SubSeq(e.bytes, 1, n)).ok
=============================================================================
