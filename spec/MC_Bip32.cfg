CONSTANTS MaxDepth = 1
IndexVals = {0, 1, 2, 3, 4, 5, 6, 7}
ChainCodes = {0, 7}
Nets = {"main", "test"}
INIT Init
NEXT Next
INVARIANT NoInvalidNode
INVARIANT ChildInRange
INVARIANT InvalidIsError
INVARIANT ValidSucceeds
INVARIANT HardenedCommitsToPrivate
INVARIANT NormalCommitsToPublic
INVARIANT DepthIndexFingerprint
INVARIANT Agree
INVARIANT RefuseHardened
INVARIANT NoPrivateInPublic
PROPERTY FailedAttemptLeavesParent
