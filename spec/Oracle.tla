------------------------------- MODULE Oracle -------------------------------
(***************************************************************************)
(* Uninterpreted primitives as finite tables recorded next to each event.  *)
(* An event e carries e.o, a sequence of [f, i, o] records: primitive      *)
(* name, input, output, computed by the harness from implementations that  *)
(* are independent of the code under test.  The SPECIFICATION decides      *)
(* which entry it looks up; an entry it wants but cannot find is reported  *)
(* as <<"MISS", id, f>> (machinery failure, never a verdict).              *)
(***************************************************************************)
EXTENDS Bytes, TLC

OIdx(e, f, in) ==
  IF \E j \in 1..Len(e.o) : e.o[j].f = f /\ e.o[j].i = in
  THEN CHOOSE j \in 1..Len(e.o) : e.o[j].f = f /\ e.o[j].i = in
  ELSE 0

Ora(e, f, in, dflt) ==
  LET j == OIdx(e, f, in)
  IN IF j # 0 THEN e.o[j].o
     ELSE IF PrintT(<<"MISS", e.id, f>>) THEN dflt ELSE dflt

Sha256(e, x)    == Ora(e, "sha256", x, Zeros(32))
Hash256(e, x)   == Ora(e, "hash256", x, Zeros(32))
Ripemd160(e, x) == Ora(e, "ripemd160", x, Zeros(20))
Hash160(e, x)   == Ripemd160(e, Sha256(e, x))
HmacSha512(e, key, msg) == Ora(e, "hmac512", <<key, msg>>, Zeros(64))
\* compressed SEC of k*G (k a 32-byte scalar in [1, n-1])
PtC(e, k)       == Ora(e, "ptc", k, Zeros(33))
\* uncompressed SEC of k*G
PtU(e, k)       == Ora(e, "ptu", k, Zeros(65))
\* compressed SEC of P + Q for compressed SEC inputs; <<>> for infinity
PtAddC(e, P, Q) == Ora(e, "ptadd", <<P, Q>>, Zeros(33))
\* Unicode NFKD of a code-point sequence; PBKDF2-HMAC-SHA512
NfkdO(e, cps) == Ora(e, "nfkd", cps, cps)
Pbkdf2O(e, pw, salt, rounds, dklen) == Ora(e, "pbkdf2", <<pw, salt, rounds, dklen>>, Zeros(64))
\* uncompressed SEC of the point whose compressed SEC is given
Uncompress(e, P) == Ora(e, "uncompress", P, Zeros(65))
\* curve membership / decompression of a SEC candidate: <<>> if not a valid
\* encoding of a curve point, else its compressed SEC
SecNorm(e, s)   == Ora(e, "secnorm", s, <<>>)
=============================================================================
