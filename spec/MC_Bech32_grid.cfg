CONSTANTS Mode = "grid"
L = 1
Cross = FALSE
Vers <- VersAll
Lens <- LensAll
INIT Init
NEXT Next
INVARIANT EncDecRoundTrip
INVARIANT IllegalHasNoAddress
INVARIANT PaddingRule
