CONSTANTS Threads = {"t1", "t2"}
IndexVals = {0, 1, 4}
MaxDepth = 2
MaxCalls = 4
GenIds = {"g1", "g2"}
Nets = {"main", "test"}
Deviations = {}
SPECIFICATION Spec
CONSTRAINT StateConstraint
INVARIANT Pure
INVARIANT ConcatIsSequence
INVARIANT GeneratorStartsAtZero
INVARIANT ObjectsAreReference
INVARIANT WatchAgrees
INVARIANT NoPrivateEver
INVARIANT HardenedRefused
INVARIANT NoMix
INVARIANT ImportNet
PROPERTY GeneratorConsecutive
PROPERTY RootUnchanged
