------------------------------ MODULE MC_Path ------------------------------
(***************************************************************************)
(* Bounded exhaustive model for C17 (real-scale numerals, token level).    *)
(*                                                                         *)
(* A state is a root mark plus a sequence of WITNESS TOKENS, each with the *)
(* class the statement assigns to it (table Tok).  The string is built by  *)
(* joining with '/', then parsed by the character-level PathGrammar!Parse; *)
(* the invariants compare the result with the token-level expectation.     *)
(*   mode "lists"  : every list of length 0..MaxLen over the five index    *)
(*                   classes x both markers x both roots (round trip)      *)
(*   mode "faults" : one faulty token at every position of every list      *)
(*   mode "deep"   : 6..MaxDeep levels                                     *)
(***************************************************************************)
EXTENDS PathGrammar, TLC

CONSTANTS MaxLen, MaxDeep

VARIABLES mode, root, toks

vars == <<mode, root, toks>>

S(str) == str     \* readability: tokens are written as code-point tuples below

\* ---- witness tokens: [t |-> text, k |-> class, v |-> 4-byte index]
D0 == <<48>>                       \* "0"
D1 == <<49>>                       \* "1"
DMaxH == <<50,49,52,55,52,56,51,54,52,55>>     \* "2147483647"
DH == <<50,49,52,55,52,56,51,54,52,56>>        \* "2147483648"
DMax == <<52,50,57,52,57,54,55,50,57,53>>      \* "4294967295"
DOver == <<52,50,57,52,57,54,55,50,57,54>>     \* "4294967296"

OkTok(t, v) == [t |-> t, k |-> "ok", v |-> v]
RejTok(t) == [t |-> t, k |-> "reject", v |-> <<>>]
EitherTok(t) == [t |-> t, k |-> "either", v |-> <<>>]

PlainOk == { OkTok(D0, <<0,0,0,0>>), OkTok(D1, <<0,0,0,1>>), OkTok(DMaxH, <<127,255,255,255>>),
             OkTok(DH, <<128,0,0,0>>), OkTok(DMax, <<255,255,255,255>>) }
TickOk == { OkTok(D0 \o <<39>>, <<128,0,0,0>>), OkTok(D1 \o <<39>>, <<128,0,0,1>>),
            OkTok(DMaxH \o <<39>>, <<255,255,255,255>>) }
HOk == { OkTok(D0 \o <<104>>, <<128,0,0,0>>), OkTok(D1 \o <<104>>, <<128,0,0,1>>),
         OkTok(DMaxH \o <<104>>, <<255,255,255,255>>) }
OtherOk == { OkTok(<<48,48,55>>, <<0,0,0,7>>), OkTok(<<48,48,55,39>>, <<128,0,0,7>>) }
OkToks == PlainOk \cup TickOk \cup HOk \cup OtherOk

RejToks == { RejTok(DOver), RejTok(DH \o <<39>>), RejTok(DH \o <<104>>), RejTok(DMax \o <<39>>),
             RejTok(<<45,49>>), RejTok(<<45,49,39>>), RejTok(<<45,49,104>>),
             RejTok(<<45>> \o DH \o <<39>>),                  \* -2147483648'
             RejTok(<<120>>), RejTok(<<49,120>>), RejTok(<<39>>), RejTok(<<104>>),
             RejTok(<<49,39,39>>), RejTok(<<48,120,49>>), RejTok(<<45,45,49>>), RejTok(<<49,45>>),
             RejTok(<<49,72>>), RejTok(<<109>>),
             RejTok(<<49,32,49>>), RejTok(<<52,32,52,39>>), RejTok(<<49,39,32>>), RejTok(<<49,95,95,48>>), RejTok(<<95,49>>) }
EmptyTok == RejTok(<<>>)              \* reject when followed by a non-empty token
EitherToks == { EitherTok(<<43,49>>), EitherTok(<<32,49>>), EitherTok(<<49,95,48>>),
                EitherTok(<<45,48>>), EitherTok(<<45,48,39>>), EitherTok(<<49,32,39>>) }

Roots == { <<109>>, <<77>> }
BadRoots == { <<>>, <<110>>, <<109,32>>, <<32,109>>, <<109,109>>, <<48>> }

Join(r, ts) == FoldLeft(LAMBDA acc, t : acc \o <<Slash>> \o t.t, r, ts)

\* the five index values 0, 1, 2^31-1, 2^31, 2^32-1 in three spellings
StyleToks(st) ==
  CASE st = "plain" -> PlainOk
    [] st = "tick" -> {OkTok(D0, <<0,0,0,0>>), OkTok(D1, <<0,0,0,1>>), OkTok(DMaxH, <<127,255,255,255>>),
                       OkTok(D0 \o <<39>>, <<128,0,0,0>>), OkTok(DMaxH \o <<39>>, <<255,255,255,255>>)}
    [] st = "h" -> {OkTok(D0, <<0,0,0,0>>), OkTok(D1, <<0,0,0,1>>), OkTok(DMaxH, <<127,255,255,255>>),
                    OkTok(D0 \o <<104>>, <<128,0,0,0>>), OkTok(DMaxH \o <<104>>, <<255,255,255,255>>)}
    [] st = "base" -> {OkTok(D0, <<0,0,0,0>>), OkTok(D1 \o <<39>>, <<128,0,0,1>>)}
    [] st = "deep" -> {OkTok(D1, <<0,0,0,1>>), OkTok(D0 \o <<39>>, <<128,0,0,0>>)}

Init ==
  /\ toks = <<>>
  /\ \/ mode \in {"plain", "tick", "h", "base", "deep"} /\ root \in Roots
     \/ mode = "badroot" /\ root \in BadRoots

\* the path grows one component per step, so every list (and every prefix) is a state
AppendOk ==
  /\ mode \in {"plain", "tick", "h", "base", "faulted"}
  /\ Len(toks) < MaxLen
  /\ \E t \in StyleToks(IF mode = "faulted" THEN "base" ELSE mode) : toks' = Append(toks, t)
  /\ UNCHANGED <<mode, root>>

\* exactly one faulty (or decorated) component, at any position
AppendFault ==
  /\ mode = "base" /\ Len(toks) < MaxLen
  /\ \E f \in RejToks \cup EitherToks \cup {EmptyTok} \cup OtherOk : toks' = Append(toks, f)
  /\ mode' = "faulted" /\ UNCHANGED root

AppendBadRoot ==
  /\ mode = "badroot" /\ Len(toks) < 2
  /\ toks' = Append(toks, OkTok(D0, <<0,0,0,0>>)) /\ UNCHANGED <<mode, root>>

AppendDeep ==
  /\ mode = "deep" /\ Len(toks) < MaxDeep
  /\ \E t \in StyleToks("deep") : toks' = Append(toks, t)
  /\ UNCHANGED <<mode, root>>

Next == AppendOk \/ AppendFault \/ AppendBadRoot \/ AppendDeep

---------------------------------------------------------------------------
\* token-level expectation
TrailEmpty == CountLeading(Reverse([i \in 1..Len(toks) |-> toks[i].t]), <<>>)
Core == SubSeq(toks, 1, Len(toks) - TrailEmpty)
ExpKind ==
  IF root \notin Roots THEN "reject"
  ELSE IF \E i \in 1..Len(Core) : Core[i].k = "reject" THEN "reject"
  ELSE IF TrailEmpty > 0 \/ \E i \in 1..Len(Core) : Core[i].k = "either" THEN "either"
  ELSE "ok"
ExpList == [i \in 1..Len(Core) |-> Core[i].v]

P == Parse(Join(root, toks))

ParseMatchesTable ==
  /\ P.kind = ExpKind
  /\ (ExpKind = "ok" => P.list = ExpList /\ P.private = (root = <<109>>))

\* formatting and re-parsing is the identity; ' and h are equivalent
RoundTrip ==
  ExpKind = "ok" =>
    /\ Parse(Format(P.private, P.list)).kind = "ok"
    /\ Parse(Format(P.private, P.list)).list = P.list
    /\ Parse(FormatH(P.private, P.list)).list = P.list
    /\ Parse(Format(P.private, P.list)).private = P.private

MarkersEquivalent ==
  mode \in {"plain", "tick", "h"} => Parse(FormatH(P.private, P.list)) = Parse(Format(P.private, P.list))

FaultRejected ==
  mode \in {"faulted", "badroot"} /\ (root \notin Roots \/ \E i \in 1..Len(Core) : Core[i].k = "reject") => P.kind = "reject"

\* deeper than five levels: the full list, never a prefix of it
DeepHonouredOrRejected ==
  mode = "deep" => /\ P.kind = "ok" /\ Len(P.list) = Len(toks) /\ P.ntok = Len(toks)
                   /\ (Len(toks) > 5 => IgnoreTail(P.list) # P.list)
=============================================================================
