----------------------------- MODULE MC_ExtKey -----------------------------
(***************************************************************************)
(* Bounded exhaustive model for C07 (payload level, real 78-byte layout;   *)
(* key material abstract).  A state is a node x version; the invariants    *)
(* are statements about ExtKey!SerPub/SerPrv/ParsePayload/ImportKind.      *)
(* The 111-character claim is proved for EVERY payload by monotonicity of  *)
(* fixed-length radix conversion: for each of the twelve prefixes the      *)
(* smallest and the largest 82-byte string have 111 characters and the     *)
(* same first four characters (ASSUME below, evaluated at real scale).     *)
(***************************************************************************)
EXTENDS ExtKey, Base58, TLC

VARIABLES node, ver

vars == <<node, ver>>

Keys == { [i \in 1..32 |-> 0] , [i \in 1..32 |-> (i * 7) % 256] }       \* k (first is all-zero only as a pattern)
KeyOf(j) == IF j = 1 THEN [i \in 1..32 |-> IF i = 32 THEN 1 ELSE 0] ELSE [i \in 1..32 |-> (i * 7 + 3) % 256]
PubOf(j) == <<2 + (j % 2)>> \o [i \in 1..32 |-> (i * 11 + j) % 256]
CCs == { Zeros(32), [i \in 1..32 |-> 255 - i] }
Depths == {0, 1, 2, 255}
Idxs == { <<0,0,0,0>>, <<0,0,0,1>>, <<127,255,255,255>>, <<128,0,0,0>>, <<255,255,255,255>> }
Pfps == { <<0,0,0,0>>, <<222,173,190,239>> }

\* near-miss version constants that must NOT be accepted
UnknownVersions == { <<4,136,178,31>>, <<4,136,173,229>>, <<4,53,135,206>>, <<0,0,0,0>>,
                     <<1,157,164,98>>,      \* Litecoin Ltpv-like
                     <<4,136,178,30,0>>, <<4,136,178>>, <<2,66,137,239>> }

Init == /\ ver \in AllVersions \cup UnknownVersions
        /\ \E j \in 1..2, c \in CCs, d \in Depths, i \in Idxs, f \in Pfps, n \in Nets :
             node = [prv |-> TRUE, k |-> KeyOf(j), K |-> PubOf(j), c |-> c, depth |-> d, idx |-> i,
                     pfp |-> f, net |-> n]

Next == UNCHANGED vars

Known == KnownVersion(ver)
T == TripleOf(ver)

\* VersionBijective: the table and its inverse
VersionBijective ==
  Known => /\ Ver(T[1], T[2], T[3]) = ver
           /\ \A x \in Triples : Ver(x[1], x[2], x[3]) = ver => x = T

UnknownVersionRejected == ~Known => ~ImportKind(ver).ok

ImportFromVersionAlone ==
  Known => LET k == ImportKind(ver)
           IN k.ok /\ k.prv = (T[1] = "prv") /\ k.net = T[2] /\ k.bip = T[3]

\* serialise / parse round trip for the admissible (node kind, version kind) pairs
PayloadOf == IF T[1] = "prv" THEN SerPrv(node, ver) ELSE SerPub(node, ver)

RoundTripEqual ==
  Known =>
    LET p == PayloadOf
        q == ParsePayload(p, T[1] = "prv", node.net)
    IN /\ Len(p) = 78
       /\ q.ok /\ q.version = ver /\ q.depth = node.depth /\ q.idx = node.idx /\ q.c = node.c
       /\ q.pfp = PfpOf(node)
       /\ q.keydata = (IF T[1] = "prv" THEN <<0>> \o node.k ELSE node.K)
       \* re-serialising the parsed fields gives the identical payload
       /\ Payload(q.version, q.depth, q.pfp, q.idx, q.c, q.keydata) = p

MasterZeroFields ==
  Known /\ node.depth = 0 /\ IsZero(node.idx) =>
     LET f == Fields(PayloadOf) IN f.depth = 0 /\ IsZero(f.pfp) /\ IsZero(f.idx)

NonMasterKeepsFingerprint ==
  Known /\ ~(node.depth = 0 /\ IsZero(node.idx)) => Fields(PayloadOf).pfp = node.pfp

\* a public serialisation carries the SEC bytes and nowhere the scalar
NoPrivateBytesInPublic ==
  Known /\ T[1] = "pub" => /\ Fields(PayloadOf).keydata = node.K
                            /\ ~IsSubSeqOf(node.k, PayloadOf)

---------------------------------------------------------------------------
\* 111 characters for every payload, every version (monotonicity argument)
MinStr(v) == Enc(v \o Zeros(78))           \* version || 74 zero bytes || checksum 00000000
MaxStr(v) == Enc(v \o Rep(255, 78))
ASSUME \A v \in AllVersions : Len(MinStr(v)) = 111 /\ Len(MaxStr(v)) = 111
\* ... and the four-character human prefix is determined by the version alone
ASSUME \A v \in AllVersions : SubSeq(MinStr(v), 1, 4) = SubSeq(MaxStr(v), 1, 4)
ASSUME Cardinality({SubSeq(MinStr(v), 1, 4) : v \in AllVersions}) = 12
ASSUME SubSeq(MinStr(Ver("pub", "main", "bip44")), 1, 4) = <<120, 112, 117, 98>>   \* "xpub"
ASSUME SubSeq(MinStr(Ver("prv", "test", "bip84")), 1, 4) = <<118, 112, 114, 118>>   \* "vprv"
=============================================================================
