------------------------------ MODULE MC_Bip85 ------------------------------
(***************************************************************************)
(* Bounded exhaustive model for C12 over the PARAMETER space at real scale *)
(* (the key tree is irrelevant for these statements): every word count     *)
(* 0..30, byte count 0..80, password length 0..100, and index classes on   *)
(* both sides of 0 and 2^31.                                               *)
(***************************************************************************)
EXTENDS Bip85, TLC

VARIABLES app, p, ix

vars == <<app, p, ix>>

Ix(neg, bytes) == [neg |-> neg, mag |-> bytes]
IndexClasses ==
  { Ix(FALSE, <<0>>), Ix(FALSE, <<1>>), Ix(FALSE, <<127,255,255,255>>),          \* 0, 1, 2^31-1
    Ix(FALSE, <<128,0,0,0>>), Ix(FALSE, <<1,0,0,0,0>>), Ix(FALSE, <<255,255,255,255>>),   \* 2^31, 2^32, 2^32-1
    Ix(TRUE, <<1>>), Ix(TRUE, <<2>>), Ix(TRUE, <<128,0,0,0>>), Ix(FALSE, <<0,0,0,5>>) }   \* -1, -2, -2^31, 5 (padded)
GoodIx == { Ix(FALSE, <<0>>), Ix(FALSE, <<1>>), Ix(FALSE, <<127,255,255,255>>), Ix(FALSE, <<0,0,0,5>>) }

ParamRange(a) == CASE a = "mnemonic" -> 0..30 [] a = "hex" -> 0..80 [] a = "pwd" -> 0..100 [] OTHER -> {0}

Init == app \in Apps /\ p \in ParamRange(app) /\ ix \in IndexClasses
Next == UNCHANGED vars

R == PathOf(app, p, ix)

InDomainIffAccepted ==
  R.ok <=> /\ ix \in GoodIx
           /\ (app = "mnemonic" => p \in {12, 15, 18, 21, 24})
           /\ (app = "hex" => p >= 16 /\ p <= 64)
           /\ (app = "pwd" => p >= 20 /\ p <= 86)

AllLevelsHardened == R.ok => \A j \in 1..Len(R.path) : IsHardened(R.path[j])

SliceWidths ==
  R.ok => /\ Width(app, p) \in 1..64
          /\ (app = "mnemonic" => Width(app, p) * 8 \in {128, 160, 192, 224, 256}
                                  /\ (Width(app, p) * 8 + Width(app, p) \div 4) \div 11 = p)

\* distinct (application, parameter, index) triples use distinct paths
AllTriples == {<<a, q, i>> : a \in Apps, q \in 0..100, i \in GoodIx \ {Ix(FALSE, <<0,0,0,5>>)}}
LegalTriples == {t \in AllTriples : t[2] \in ParamRange(t[1]) /\ PathOf(t[1], t[2], t[3]).ok}
ASSUME Cardinality({PathOf(t[1], t[2], t[3]).path : t \in LegalTriples}) = Cardinality(LegalTriples)
ASSUME Cardinality(LegalTriples) = 3 * (5 + 1 + 1 + 49 + 67)

\* Base64 on known values
ASSUME Base64(<<77, 97, 110>>) = <<84, 87, 70, 117>>           \* "Man" -> "TWFu"
ASSUME Base64(<<77, 97>>) = <<84, 87, 69>>                      \* "Ma" -> "TWE" (=)
ASSUME Len(Base64(Zeros(64))) = 86
=============================================================================
