CONSTANTS PrngStates = {0, 1, 2}
Lengths = {12, 24}
Symbols = {0, 3}
MaxSteps = 3
Deviations = {}
SPECIFICATION Spec
CONSTRAINT StateConstraint
INVARIANT EnoughBits
INVARIANT FromOsOnly
INVARIANT FreshEachTime
PROPERTY NoPrngInfluence
