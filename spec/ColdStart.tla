------------------------------ MODULE ColdStart ------------------------------
(***************************************************************************)
(* One-time initialisation under threads (C13 / C16): what a process may   *)
(* do when its FIRST requests arrive on several threads at once.           *)
(*                                                                         *)
(* The library answers every request from tables (version prefixes ->      *)
(* key type / network / flavour, word list, opcode names ...).  A table    *)
(* that is built lazily is shared state with a life cycle: absent ->       *)
(* (being built) -> complete.  The conformant design builds privately and  *)
(* PUBLISHES the complete table in one step (or builds at import, before   *)
(* any thread can ask).  Deviation "inplace" publishes the table first and *)
(* fills it afterwards, entry by entry, first with defaults and then with  *)
(* the final values - the realistic wrong design.                          *)
(*                                                                         *)
(* The property is C13's purity seen from a fresh process: every answer is *)
(* the one the complete table gives (Answer(k)), whichever thread asked    *)
(* and whatever the others were doing.  The implementation is bound to     *)
(* this model by harness/hdreplay.cold_start_threads: fresh interpreters,  *)
(* first use by several threads released together, each answer compared    *)
(* with the sequential answer.                                             *)
(***************************************************************************)
EXTENDS Naturals, FiniteSets, TLC

CONSTANTS Threads, Keys, Deviations

Final(k) == <<"final", k>>          \* what the complete table says about key k
Default(k) == <<"default", k>>      \* phase-1 filler of the in-place design (e.g. "mainnet, BIP44")
Answer(k) == Final(k)

VARIABLES
  published, \* has a table been published yet?
  table,     \* the PUBLISHED table: a function from a subset of Keys to values (meaningful once published)
  scratch,   \* per thread: the private table a builder is filling
  pc,        \* per thread: "idle" | "building" | "filling1" | "filling2" | "done"
  asked,     \* per thread: the key it was asked about
  got        \* per thread: the answer it gave ("none" before)

vars == <<published, table, scratch, pc, asked, got>>

Empty == [k \in {} |-> 0]
Complete(t) == DOMAIN t = Keys /\ \A k \in Keys : t[k] = Final(k)

Init == /\ published = FALSE /\ table = Empty
        /\ scratch = [t \in Threads |-> Empty]
        /\ pc = [t \in Threads |-> "idle"]
        /\ asked \in [Threads -> Keys]
        /\ got = [t \in Threads |-> <<"none">>]

\* ---- conformant: build privately, publish atomically
StartBuild(t) ==
  /\ pc[t] = "idle" /\ ~published /\ Deviations = {}
  /\ scratch' = [scratch EXCEPT ![t] = Empty]
  /\ pc' = [pc EXCEPT ![t] = "building"]
  /\ UNCHANGED <<published, table, asked, got>>
BuildOne(t) ==
  /\ pc[t] = "building" /\ DOMAIN scratch[t] # Keys
  /\ \E k \in Keys \ DOMAIN scratch[t] :
        scratch' = [scratch EXCEPT ![t] = [x \in DOMAIN scratch[t] \cup {k} |-> Final(x)]]
  /\ UNCHANGED <<published, table, pc, asked, got>>
Publish(t) ==          \* several builders may race; each publishes a COMPLETE table, the last one wins
  /\ pc[t] = "building" /\ DOMAIN scratch[t] = Keys
  /\ table' = scratch[t] /\ published' = TRUE
  /\ pc' = [pc EXCEPT ![t] = "idle"]
  /\ scratch' = [scratch EXCEPT ![t] = Empty]
  /\ UNCHANGED <<asked, got>>

\* ---- deviation: publish first, fill in place in two phases
StartInPlace(t) ==
  /\ "inplace" \in Deviations /\ pc[t] = "idle" /\ ~published
  /\ table' = Empty /\ published' = TRUE            \* the empty dict is now visible to everybody
  /\ pc' = [pc EXCEPT ![t] = "filling1"]
  /\ UNCHANGED <<scratch, asked, got>>
Fill1(t) ==
  /\ pc[t] = "filling1"
  /\ IF DOMAIN table = Keys THEN pc' = [pc EXCEPT ![t] = "filling2"] /\ table' = table
     ELSE /\ \E k \in Keys \ DOMAIN table : table' = [x \in DOMAIN table \cup {k} |-> IF x = k THEN Default(k) ELSE table[x]]
          /\ pc' = pc
  /\ UNCHANGED <<published, scratch, asked, got>>
Fill2(t) ==
  /\ pc[t] = "filling2"
  /\ IF \A k \in Keys : table[k] = Final(k) THEN pc' = [pc EXCEPT ![t] = "idle"] /\ table' = table
     ELSE /\ \E k \in {x \in Keys : table[x] # Final(x)} : table' = [table EXCEPT ![k] = Final(k)]
          /\ pc' = pc
  /\ UNCHANGED <<published, scratch, asked, got>>

\* ---- a request: answered from whatever is published; an absent key is "unknown version"
\* (the in-place design's guard is "table is non-empty", so a second thread does not rebuild)
Ask(t) ==
  /\ pc[t] = "idle" /\ got[t] = <<"none">> /\ published
  /\ (Deviations = {} \/ DOMAIN table # {})
  /\ got' = [got EXCEPT ![t] = IF asked[t] \in DOMAIN table THEN table[asked[t]] ELSE <<"refused", asked[t]>>]
  /\ pc' = [pc EXCEPT ![t] = "done"]
  /\ UNCHANGED <<published, table, scratch, asked>>

Next == \E t \in Threads : StartBuild(t) \/ BuildOne(t) \/ Publish(t) \/ StartInPlace(t) \/ Fill1(t) \/ Fill2(t) \/ Ask(t)

Spec == Init /\ [][Next]_vars

---------------------------------------------------------------------------
\* every answer ever given is the complete table's answer
AnswersAreSequential == \A t \in Threads : got[t] # <<"none">> => got[t] = Answer(asked[t])
\* nobody can observe a table that is published but incomplete
PublishedIsComplete == published => Complete(table)
\* anti-vacuity (checked as a violated invariant by the harness): somebody does get an answer
NobodyAnswered == \A t \in Threads : got[t] = <<"none">>
=============================================================================
