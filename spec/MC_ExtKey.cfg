INIT Init
NEXT Next
INVARIANT VersionBijective
INVARIANT UnknownVersionRejected
INVARIANT ImportFromVersionAlone
INVARIANT RoundTripEqual
INVARIANT MasterZeroFields
INVARIANT NonMasterKeepsFingerprint
INVARIANT NoPrivateBytesInPublic
