CONSTANTS HashHeads16 = {0, 80, 144, 255}
INIT Init
NEXT Next
INVARIANT C04Invariants
