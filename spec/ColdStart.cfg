CONSTANTS Threads = {"t1", "t2", "t3"}
Keys = {"xpub", "tpub", "vprv"}
Deviations = {}
SPECIFICATION Spec
INVARIANT AnswersAreSequential
INVARIANT PublishedIsComplete
