------------------------------- MODULE Merkle -------------------------------
(***************************************************************************)
(* Growth beyond the listed properties: the merkle helpers of helper.py.   *)
(* merkle_parent_level duplicates the last hash of an odd level IN THE     *)
(* CALLER'S LIST (a history effect: the argument object is changed), and   *)
(* refuses a level of one element; merkle_root folds levels until one hash *)
(* is left.  The hash of a pair is an operator constant (abstract in the   *)
(* bounded model, the Hash256 oracle in trace validation).                 *)
(***************************************************************************)
EXTENDS Bytes

CONSTANT PairHash(_, _, _)          \* PairHash(cx, left, right)

\* [ok, level, caller]: the parent level, and what the caller's list looks like afterwards
ParentLevel(cx, hs) ==
  IF Len(hs) = 1 THEN [ok |-> FALSE, level |-> <<>>, caller |-> hs]
  ELSE LET padded == IF Len(hs) % 2 = 1 THEN Append(hs, hs[Len(hs)]) ELSE hs
       IN [ok |-> TRUE,
           level |-> [i \in 1..(Len(padded) \div 2) |-> PairHash(cx, padded[2 * i - 1], padded[2 * i])],
           caller |-> padded]

RECURSIVE Root(_, _)
\* [ok, root]; an empty list has no root
Root(cx, hs) ==
  IF Len(hs) = 0 THEN [ok |-> FALSE, root |-> <<>>]
  ELSE IF Len(hs) = 1 THEN [ok |-> TRUE, root |-> hs[1]]
  ELSE Root(cx, ParentLevel(cx, hs).level)
=============================================================================
