SPECIFICATION Spec
INVARIANT InvFailureIsSilent
INVARIANT InvSuccessEqualsApi
INVARIANT InvNeverOverwrite
INVARIANT InvBip44Shaped
INVARIANT InvPasswordHonoured
INVARIANT ExitIsSet
