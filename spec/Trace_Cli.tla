----------------------------- MODULE Trace_Cli -----------------------------
(***************************************************************************)
(* Trace validation for C20: each event is ONE run of the real program     *)
(* (in-process main() or `python -m btc_hd_wallet`), described by the      *)
(* abstract argument vector it was generated from (the witness classes of  *)
(* Cli.tla) and by what was observed: exit status, what stdout contained,  *)
(* the directory before and after, the files opened for writing, the row   *)
(* paths of the emitted wallet, and whether the emitted JSON equals the    *)
(* library API's result for the same inputs.  The verdict evaluates the    *)
(* four property predicates of Cli.tla on the observation.                 *)
(***************************************************************************)
EXTENDS Cli, PathGrammar, Json, IOUtils

Trace == JsonDeserialize(IOEnv.TRACE_FILE)

VARIABLE l

\* BIP44-shaped row path: m / purpose' / coin' / account' / chain / index, last two not hardened
RowShaped(str) ==
  LET p == Parse(str)
  IN /\ p.kind = "ok" /\ Len(p.list) = 5
     /\ IsHardened(p.list[1]) /\ IsHardened(p.list[2]) /\ IsHardened(p.list[3])
     /\ ~IsHardened(p.list[4]) /\ ~IsHardened(p.list[5])

Verdict(e) ==
  LET a == e.argv
      o == e.obs
  IN IF "timed_out" \in DOMAIN o /\ o.timed_out THEN "cli-run-did-not-finish"       \* (a conformant run takes seconds)
     ELSE IF "sink" \in DOMAIN e /\ e.sink = "closed-pipe"
     THEN \* nobody reads the standard output: the wallet was not delivered, so the run has not succeeded
          (IF o.exit = 0 THEN "cli-zero-status-although-stdout-was-closed" ELSE "ok")
     ELSE IF o.exit # 0 /\ o.stdout \notin {"empty", "help"} THEN "cli-wallet-data-on-stdout-of-failed-run"
     ELSE IF o.exit # 0 /\ (o.created \/ o.fs_changed) THEN "cli-failed-run-touched-the-file-system"
     ELSE IF o.overwrote THEN "cli-existing-file-overwritten"
     ELSE IF ~NeverOverwrite(a, o) THEN "cli-wrote-at-an-existing-path"
     \* "saves to the REQUESTED new file": whatever appeared in the directory appeared at the path that was given
     \* (or, for a dangling link, at the place the link names)
     ELSE IF "created_elsewhere" \in DOMAIN o /\ o.created_elsewhere THEN "cli-file-created-at-a-path-that-was-not-requested"
     ELSE IF a.help /\ o.exit = 0 THEN (IF o.stdout = "help" /\ ~o.created /\ ~o.fs_changed THEN "ok" ELSE "cli-help-run-emitted-or-wrote-something")
     ELSE IF o.exit = 0 /\ o.stdout = "help" THEN "cli-help-with-zero-status"
     ELSE IF o.exit = 0 /\ ~o.equals_api THEN "cli-output-differs-from-api-result"
     ELSE IF o.exit = 0 /\ a.file = "none" /\ (o.created \/ o.stdout \notin {"wallet", "wallet-filtered"}) THEN "cli-wrong-output-channel"
     ELSE IF o.exit = 0 /\ a.file # "none" /\ (~o.created \/ o.stdout # "empty") THEN "cli-wrong-output-channel"
     ELSE IF o.exit = 0 /\ a.paranoia /\ o.content # "wallet-filtered" THEN "cli-paranoia-output-not-filtered"
     ELSE IF o.exit = 0 /\ ~a.paranoia /\ o.content # "wallet" THEN "cli-output-not-the-full-wallet"
     ELSE IF o.exit = 0 /\ o.net # NetOf(a.cmd, a.arg, a.testnet) THEN "cli-network-not-as-requested"
     ELSE IF o.exit = 0 /\ \E j \in 1..Len(o.rowpaths) : ~RowShaped(o.rowpaths[j]) THEN "cli-row-not-bip44-shaped"
     ELSE IF ~Bip44Shaped(a, o) THEN "cli-accepted-interval-reaching-hardened-indexes"
     ELSE IF ~PasswordHonoured(a, o) THEN "cli-password-option-silently-dropped"
     ELSE "ok"

\* Cli.tla's own variables are not used here (its predicates take the observation as arguments)
TraceInit == l = 1 /\ argv = 0 /\ pc = "trace" /\ out = 0 /\ fs = 0
TraceNext ==
  /\ l <= Len(Trace)
  /\ LET v == Verdict(Trace[l])
     IN IF v = "ok" THEN TRUE ELSE PrintT(<<"RJ", Trace[l].id, v>>)
  /\ l' = l + 1
  /\ UNCHANGED <<argv, pc, out, fs>>
=============================================================================
