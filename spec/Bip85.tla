-------------------------------- MODULE Bip85 --------------------------------
(***************************************************************************)
(* BIP85 deterministic entropy: the five applications the library offers.  *)
(* Parameters are small integers; the index is a record [neg, mag] with    *)
(* mag a big-endian byte sequence, so that values below zero and above     *)
(* 2^31 can be expressed without 32-bit overflow.                          *)
(***************************************************************************)
EXTENDS Bytes, PathGrammar

Apps == {"mnemonic", "wif", "xprv", "hex", "pwd"}

EntropyKey == <<98,105,112,45,101,110,116,114,111,112,121,45,102,114,111,109,45,107>>   \* "bip-entropy-from-k"

\* hardened child number from a decimal numeral (digits as numbers)
HNum(ds) == Harden(To4(ds))
Root85 == HNum(<<8,3,6,9,6,9,6,8>>)            \* 83696968'
App39  == HNum(<<3,9>>)
App2   == HNum(<<2>>)
App32  == HNum(<<3,2>>)
AppHex == HNum(<<1,2,8,1,6,9>>)
AppPwd == HNum(<<7,0,7,7,6,4>>)
HSmall(n) == Harden(FromNat(n, 4))             \* n < 2^31 as a TLC integer

\* index in [0, 2^31)
IndexOk(ix) ==
  /\ ~ix.neg
  /\ ("frac" \notin DOMAIN ix \/ ~ix.frac)      \* an index is an integer: mag + 1/2 is not an index
  /\ LET m == Drop(ix.mag, CountLeading(ix.mag, 0))
     IN Len(m) < 4 \/ (Len(m) = 4 /\ m[1] < 128)
HIndex(ix) == LET m == Drop(ix.mag, CountLeading(ix.mag, 0)) IN Harden(Zeros(4 - Len(m)) \o m)

WordCounts == {12, 15, 18, 21, 24}
ParamOk(app, p) ==
  CASE app = "mnemonic" -> p \in WordCounts
    [] app = "hex" -> p \in 16..64
    [] app = "pwd" -> p \in 20..86
    [] OTHER -> TRUE

\* [ok, path]
PathOf(app, p, ix) ==
  IF ~ParamOk(app, p) \/ ~IndexOk(ix) THEN [ok |-> FALSE, path |-> <<>>]
  ELSE [ok |-> TRUE, path |->
         CASE app = "mnemonic" -> <<Root85, App39, HSmall(0), HSmall(p), HIndex(ix)>>
           [] app = "wif"  -> <<Root85, App2, HIndex(ix)>>
           [] app = "xprv" -> <<Root85, App32, HIndex(ix)>>
           [] app = "hex"  -> <<Root85, AppHex, HSmall(p), HIndex(ix)>>
           [] app = "pwd"  -> <<Root85, AppPwd, HSmall(p), HIndex(ix)>>]

\* how many bytes of the 64-byte entropy an application uses
Width(app, p) ==
  CASE app = "mnemonic" -> (p * 4) \div 3          \* 12->16, 15->20, 18->24, 21->28, 24->32
    [] app = "wif" -> 32
    [] app = "xprv" -> 64
    [] app = "hex" -> p
    [] app = "pwd" -> 64

(***************************************************************************)
(* Base64 (standard alphabet) of a byte sequence, without padding chars.   *)
(***************************************************************************)
B64Char(v) == IF v < 26 THEN 65 + v ELSE IF v < 52 THEN 71 + v ELSE IF v < 62 THEN v - 4
              ELSE IF v = 62 THEN 43 ELSE 47
Base64(bs) ==
  LET bits == ToBits(bs)
      pad == (6 - (Len(bits) % 6)) % 6
      groups == Regroup(bits \o Zeros(pad), 6)
  IN [i \in 1..Len(groups) |-> B64Char(groups[i])]
=============================================================================
