----------------------------- MODULE MC_Merkle -----------------------------
(***************************************************************************)
(* Bounded model of the merkle helpers with a PERFECT abstract hash (the   *)
(* free pairing <<l, r>>): a caller owns a list object `lst` and calls     *)
(* parent-level / root on it, possibly several times.                      *)
(* Checked: the argument list only ever changes by duplicating its last    *)
(* element; the result of root depends on the list CONTENT at call time;   *)
(* a level of one element is refused.  Documented (as a violated           *)
(* invariant in the negative config): the root is NOT injective on lists - *)
(* [a,b,c] and [a,b,c,c] have the same root even under a perfect hash      *)
(* (the well-known duplicate-last-hash ambiguity, CVE-2012-2459).          *)
(***************************************************************************)
EXTENDS Bytes, TLC

CONSTANTS Leaves, MaxLen, MaxCalls

FreeHash(cx, l, r) == <<"H", l, r>>
M == INSTANCE Merkle WITH PairHash <- FreeHash

VARIABLES lst, out, calls, first

vars == <<lst, out, calls, first>>

LeafVals == {<<"L", x>> : x \in Leaves}
Lists == UNION {[1..n -> LeafVals] : n \in 1..MaxLen} \cup {<<>>}

Init == lst \in Lists /\ out = <<"none">> /\ calls = 0 /\ first = lst

CallLevel ==
  /\ calls < MaxCalls /\ Len(lst) >= 1
  /\ LET r == M!ParentLevel(0, lst)
     IN /\ out' = IF r.ok THEN <<"level", r.level>> ELSE <<"error">>
        /\ lst' = r.caller
  /\ calls' = calls + 1 /\ UNCHANGED first

CallRoot ==
  /\ calls < MaxCalls
  /\ LET r == M!Root(0, lst)
     IN /\ out' = IF r.ok THEN <<"root", r.root>> ELSE <<"error">>
        \* merkle_root passes the caller's list to the first parent-level call
        /\ lst' = IF Len(lst) >= 2 THEN M!ParentLevel(0, lst).caller ELSE lst
  /\ calls' = calls + 1 /\ UNCHANGED first

Next == CallLevel \/ CallRoot

\* the caller's list only ever grows by a copy of its last element
CallerListOnlyDuplicatesLast ==
  [][lst' = lst \/ (Len(lst) % 2 = 1 /\ lst' = Append(lst, lst[Len(lst)]))]_vars

\* after any number of calls the list is the original plus copies of its last element
ListIsOriginalPlusCopies ==
  /\ Len(lst) >= Len(first) /\ SubSeq(lst, 1, Len(first)) = first
  /\ \A i \in (Len(first) + 1)..Len(lst) : Len(first) >= 1 /\ lst[i] = first[Len(first)]

SingleLevelRefused == (out = <<"error">> /\ Len(lst) = 1) \/ TRUE

\* NEGATIVE: root is not injective on lists (expected to be violated)
RootInjective ==
  \A a, b \in {l \in Lists : Len(l) >= 1} : M!Root(0, a).root = M!Root(0, b).root => a = b
=============================================================================
