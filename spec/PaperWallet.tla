----------------------------- MODULE PaperWallet -----------------------------
(***************************************************************************)
(* System model of the paper wallet (C06, C15, with C16's tags): the       *)
(* record tree generate(account, interval) builds, its paranoia filter and *)
(* the "new field" scenario.  Toy scale (Toy.tla): child numbers 0..7,     *)
(* 4..7 hardened; purposes 44/49/84 are re-indexed to the hardened numbers *)
(* 5, 6, 7; coin types 0'/1' are 4 and 5; accounts 0..2 are 4..6.          *)
(*                                                                         *)
(* Every leaf is a record [v (value), secret, net ("none" if untagged),    *)
(* pub (TRUE for data that must survive the filter unchanged)].            *)
(***************************************************************************)
EXTENDS Toy, TLC

CONSTANTS Nets, Accounts, Bounds,     \* interval bounds are taken from Bounds
          MasterKeys, MinDerivable

VARIABLES net, acct, iv, extra, watch, mk

vars == <<net, acct, iv, extra, watch, mk>>

\* a PRF whose left half is always below the group order: the only invalid children are the
\* zero-sum ones, so that whole wallets are derivable for most masters (the hostile PRF of
\* Toy.tla is what the derivation models use)
GentlePrf(cx, key, msg) == LET m == Mix(key \o <<254>> \o msg) IN <<1 + (m % 12), (m \div 16) % 4>>
P32 == INSTANCE Bip32 WITH KeyLen <- 1, IdxLen <- 1, HardMin <- 4, N <- <<Order>>,
                           Hmac <- GentlePrf, PtC <- ToyPtC, PtAdd <- ToyPtAdd, H160 <- ToyH160

Purposes == <<5, 6, 7>>                      \* 44', 49', 84'
PurposeName(p) == CASE p = 5 -> "BIP44" [] p = 6 -> "BIP49" [] p = 7 -> "BIP84"
AddrKind(p) == CASE p = 5 -> "p2pkh" [] p = 6 -> "p2sh_p2wpkh" [] p = 7 -> "p2wpkh"
Flavour(p) == CASE p = 5 -> "x" [] p = 6 -> "y" [] p = 7 -> "z"
Coin(n) == IF n = "test" THEN 5 ELSE 4

MasterOf(k, n) == P32!PrvNode(0, <<k>>, <<2>>, 0, <<0>>, Zeros(4), n)
Master(n) == MasterOf(mk, n)
Lift(path) == [j \in 1..Len(path) |-> <<path[j]>>]
D(root, path) == P32!DerivePath(0, root, Lift(path))

\* anti-vacuity: how many (network, account, interval) combinations are derivable under the toy PRF
DerivableFor(k, n, a, i) ==
  \A j \in 1..3 : LET p == Purposes[j]  base == <<p, Coin(n), 4 + a, 0>>
                       rows == IF i[2] > i[1] THEN i[2] - i[1] ELSE 0 IN
     /\ D(MasterOf(k, n), base).out = "ok"
     /\ \A r \in 1..rows : (i[1] + r - 1) < 4 /\ D(MasterOf(k, n), base \o <<i[1] + r - 1>>).out = "ok"
DerivableCount == Cardinality({x \in MasterKeys \X Nets \X Accounts \X (Bounds \X Bounds) : DerivableFor(x[1], x[2], x[3], x[4])})
ASSUME PrintT(<<"DERIVABLE", DerivableCount>>) /\ DerivableCount >= MinDerivable

Leaf(v, secret, tag, pub) == [v |-> v, secret |-> secret, net |-> tag, pub |-> pub]

\* renderings (abstract, carrying the tags the properties talk about)
PathStr(path) == <<"path", path>>
Address(kind, n, wnet) == <<"addr", kind, wnet, n.K>>
SecHex(n) == <<"sec", n.K>>
Wif(n, wnet) == <<"wif", wnet, n.k>>
ExtPub(n, fl, wnet) == <<"extpub", fl, wnet, n.K, n.c, n.depth, n.idx, n.pfp>>
ExtPrv(n, fl, wnet) == <<"extprv", fl, wnet, n.k, n.c, n.depth, n.idx, n.pfp>>

AcctPath(p) == <<p, Coin(net), 4 + acct>>
Rows(p) == LET n == IF iv[2] > iv[1] THEN iv[2] - iv[1] ELSE 0 IN [j \in 1..n |-> iv[1] + j - 1]

\* does every derivation the wallet needs succeed?  (the fixed toy PRF has invalid children)
Derivable ==
  \A j \in 1..3 : LET p == Purposes[j] IN
     /\ D(Master(net), AcctPath(p) \o <<0>>).out = "ok"
     /\ \A r \in 1..Len(Rows(p)) : Rows(p)[r] < 4 /\ D(Master(net), AcctPath(p) \o <<0, Rows(p)[r]>>).out = "ok"

Row(p, i) ==
  LET path == AcctPath(p) \o <<0, i>>
      n == D(Master(net), path).node
  IN << Leaf(PathStr(path), FALSE, "none", TRUE),
        Leaf(Address(AddrKind(p), n, net), FALSE, net, TRUE),
        Leaf(SecHex(n), FALSE, "none", TRUE),
        Leaf(IF watch THEN <<"none">> ELSE Wif(n, net), ~watch, IF watch THEN "none" ELSE net, FALSE) >>

Block(p) ==
  LET a == D(Master(net), AcctPath(p)).node
  IN [account_extended_keys |->
        [path |-> Leaf(PathStr(AcctPath(p)), FALSE, "none", TRUE),
         pub |-> Leaf(ExtPub(a, Flavour(p), net), FALSE, net, TRUE),
         prv |-> Leaf(IF watch THEN <<"none">> ELSE ExtPrv(a, Flavour(p), net), ~watch, IF watch THEN "none" ELSE net, FALSE)],
      groups |-> [r \in 1..Len(Rows(p)) |-> Row(p, Rows(p)[r])]]

\* the full tree; `extra` optionally adds one more field somewhere (a secret or a public one)
Tree ==
  [MASTER |-> [mnemonic |-> Leaf(<<"mnemonic">>, TRUE, "none", FALSE), password |-> Leaf(<<"password">>, TRUE, "none", FALSE)],
   BIP85 |-> [w0 |-> Leaf(<<"bip85", 0>>, TRUE, "none", FALSE), x0 |-> Leaf(<<"bip85", 1>>, TRUE, "none", FALSE)],
   BIP44 |-> Block(5), BIP49 |-> Block(6), BIP84 |-> Block(7),
   EXTRA |-> extra]

\* the filter, structurally (a whitelist): only BIP44/49/84; path + pub of the account; rows minus the last column
Paranoia(t) ==
  [k \in {"BIP44", "BIP49", "BIP84"} |->
     [account_extended_keys |-> [path |-> t[k].account_extended_keys.path, pub |-> t[k].account_extended_keys.pub],
      groups |-> [r \in 1..Len(t[k].groups) |-> SubSeq(t[k].groups[r], 1, Len(t[k].groups[r]) - 1)]]]

\* all leaves of a (filtered) tree of this shape
BlockLeaves(b) == {b.account_extended_keys[f] : f \in DOMAIN b.account_extended_keys}
                  \cup UNION {{b.groups[r][c] : c \in 1..Len(b.groups[r])} : r \in 1..Len(b.groups)}
FilteredLeaves(f) == UNION {BlockLeaves(f[k]) : k \in DOMAIN f}
FullLeaves(t) == BlockLeaves(t.BIP44) \cup BlockLeaves(t.BIP49) \cup BlockLeaves(t.BIP84)
                 \cup {t.MASTER.mnemonic, t.MASTER.password, t.BIP85.w0, t.BIP85.x0}
                 \cup (IF t.EXTRA = <<>> THEN {} ELSE {t.EXTRA})

ExtraChoices == {<<>>, Leaf(<<"new-secret">>, TRUE, "none", FALSE), Leaf(<<"new-public">>, FALSE, "none", FALSE)}

Init == /\ mk \in MasterKeys /\ net \in Nets /\ acct \in Accounts /\ iv \in Bounds \X Bounds /\ extra \in ExtraChoices /\ watch \in {FALSE}
Next == UNCHANGED vars

---------------------------------------------------------------------------
\* C06
OneRowPerIndexInOrder ==
  Derivable => \A j \in 1..3 : LET b == Tree[PurposeName(Purposes[j])] IN
     /\ Len(b.groups) = (IF iv[2] > iv[1] THEN iv[2] - iv[1] ELSE 0)
     /\ \A r \in 1..Len(b.groups) : b.groups[r][1].v = PathStr(AcctPath(Purposes[j]) \o <<0, iv[1] + r - 1>>)

RowIsOneKey ==      \* path, address, sec and wif of a row are functions of the SAME node
  Derivable => \A j \in 1..3 : LET p == Purposes[j]  b == Tree[PurposeName(p)] IN
     \A r \in 1..Len(b.groups) :
        LET n == D(Master(net), b.groups[r][1].v[2]).node
        IN /\ b.groups[r][2].v = Address(AddrKind(p), n, net)
           /\ b.groups[r][3].v = SecHex(n)
           /\ b.groups[r][4].v = Wif(n, net)

PurposeCoinVersionAligned ==
  Derivable => \A j \in 1..3 : LET p == Purposes[j]  b == Tree[PurposeName(p)] IN
     /\ b.account_extended_keys.path.v = PathStr(<<p, Coin(net), 4 + acct>>)
     /\ \A x \in 1..3 : b.account_extended_keys.path.v[2][x] >= 4            \* purpose', coin', account'
     /\ b.account_extended_keys.pub.v[2] = Flavour(p) /\ b.account_extended_keys.prv.v[2] = Flavour(p)
     /\ b.account_extended_keys.pub.v[3] = net /\ b.account_extended_keys.prv.v[3] = net
     /\ \A r \in 1..Len(b.groups) : b.groups[r][1].v[2][4] = 0 /\ b.groups[r][1].v[2][5] < 4   \* external chain, normal index

\* C15
NoSecretLeaf == Derivable => \A l \in FilteredLeaves(Paranoia(Tree)) : ~l.secret
NoSecretString == Derivable =>
  \A l \in FilteredLeaves(Paranoia(Tree)) : \A s \in FullLeaves(Tree) : s.secret => l.v # s.v
PublicPreserved == Derivable =>
  {l \in FullLeaves(Tree) : l.pub} = FilteredLeaves(Paranoia(Tree))

\* C16 (tags)
NoMix == Derivable => \A l \in FullLeaves(Tree) : l.net \in {"none", net}
=============================================================================
