------------------------------- MODULE Ripemd -------------------------------
(***************************************************************************)
(* The Merkle-Damgard shell of RIPEMD-160: padding, block splitting,       *)
(* chaining and output.  The compression function is uninterpreted: its    *)
(* calls are observed (state in, block, state out) and the shell checks    *)
(* which blocks it is applied to and how states are threaded.              *)
(* State words are little-endian byte sequences of whatever length the     *)
(* implementation carries (it keeps unreduced sums); the digest takes the  *)
(* low four bytes of each word.                                            *)
(***************************************************************************)
EXTENDS Bytes

IV == << <<1, 35, 69, 103>>, <<137, 171, 205, 239>>, <<254, 220, 186, 152>>,
         <<118, 84, 50, 16>>, <<240, 225, 210, 195>> >>
   \* 0x67452301, 0xefcdab89, 0x98badcfe, 0x10325476, 0xc3d2e1f0 (little-endian bytes)

ZerosNeeded(n) == (119 - (n % 64)) % 64         \* bytes of 00 after the 0x80 marker
Padded(msg) == msg \o <<128>> \o Zeros(ZerosNeeded(Len(msg))) \o FromNatLE(8 * Len(msg), 8)
NBlocks(msg) == Len(Padded(msg)) \div 64
Block(msg, j) == SubSeq(Padded(msg), 64 * (j - 1) + 1, 64 * j)

Low4(w) == Take(w \o Zeros(4), 4)
DigestOf(state) == Flatten([i \in 1..5 |-> Low4(state[i])])

\* calls: sequence of [sin, block, sout]; -> "ok" or the first broken rule
ShellVerdict(msg, calls, digest) ==
  IF Len(Padded(msg)) % 64 # 0 THEN "spec-padding-not-block-aligned"
  ELSE IF Len(calls) # NBlocks(msg) THEN "number-of-compressed-blocks"
  ELSE IF \E j \in 1..Len(calls) : calls[j].block # Block(msg, j) THEN "block-content-or-padding"
  ELSE IF [i \in 1..5 |-> Low4(calls[1].sin[i])] # IV THEN "initial-state"
  ELSE IF \E j \in 1..(Len(calls) - 1) : calls[j + 1].sin # calls[j].sout THEN "chaining"
  ELSE IF digest # DigestOf(calls[Len(calls)].sout) THEN "output-encoding"
  ELSE "ok"
=============================================================================
