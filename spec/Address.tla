------------------------------- MODULE Address -------------------------------
(***************************************************************************)
(* The five address kinds as compositions of hashes, script templates,     *)
(* Base58Check and Bech32; and Classify, which reads an address string     *)
(* back with the specification's own decoders.                             *)
(* Hash primitives are operator constants taking a context (see Bip32.tla).*)
(***************************************************************************)
EXTENDS Bytes, Base58, Bech32

CONSTANTS Sha(_, _), Rip(_, _), H256(_, _)

H160(cx, x) == Rip(cx, Sha(cx, x))

Kinds == {"p2pkh", "p2wpkh", "p2sh_p2wpkh", "p2wsh", "p2sh_p2wsh"}

PkhVer(net) == IF net = "test" THEN 111 ELSE 0       \* 6f / 00
ShVer(net)  == IF net = "test" THEN 196 ELSE 5       \* c4 / 05
Hrp(net)    == IF net = "test" THEN <<116, 98>> ELSE <<98, 99>>     \* "tb" / "bc"

\* scriptPubKey templates (raw, without the length prefix)
ScriptP2PKH(h)  == <<118, 169, 20>> \o h \o <<136, 172>>      \* DUP HASH160 <20> EQUALVERIFY CHECKSIG
ScriptP2SH(h)   == <<169, 20>> \o h \o <<135>>                \* HASH160 <20> EQUAL
ScriptP2WPKH(h) == <<0, 20>> \o h                             \* OP_0 <20>
ScriptP2WSH(h)  == <<0, 32>> \o h                             \* OP_0 <32>
\* the library's witness script: 1-of-1 CHECKMULTISIG over the compressed key
Witness1of1(sec) == <<81, Len(sec)>> \o sec \o <<81, 174>>    \* OP_1 <33> OP_1 OP_CHECKMULTISIG

B58(cx, payload) == EncCheck(payload, H256(cx, payload))

Addr(cx, kind, sec, net) ==
  CASE kind = "p2pkh"       -> B58(cx, <<PkhVer(net)>> \o H160(cx, sec))
    [] kind = "p2wpkh"      -> AddrEncode(Hrp(net), 0, H160(cx, sec)).str
    [] kind = "p2sh_p2wpkh" -> B58(cx, <<ShVer(net)>> \o H160(cx, ScriptP2WPKH(H160(cx, sec))))
    [] kind = "p2wsh"       -> AddrEncode(Hrp(net), 0, Sha(cx, Witness1of1(sec))).str
    [] kind = "p2sh_p2wsh"  -> B58(cx, <<ShVer(net)>> \o H160(cx, ScriptP2WSH(Sha(cx, Witness1of1(sec)))))

\* what the address must decode to: <<class, net, payload>>
Expected(cx, kind, sec, net) ==
  CASE kind = "p2pkh"       -> <<"pkh", net, H160(cx, sec)>>
    [] kind = "p2wpkh"      -> <<"w0", net, H160(cx, sec)>>
    [] kind = "p2sh_p2wpkh" -> <<"sh", net, H160(cx, ScriptP2WPKH(H160(cx, sec)))>>
    [] kind = "p2wsh"       -> <<"w0", net, Sha(cx, Witness1of1(sec))>>
    [] kind = "p2sh_p2wsh"  -> <<"sh", net, H160(cx, ScriptP2WSH(Sha(cx, Witness1of1(sec))))>>

(***************************************************************************)
(* Classify(cx, str) -> <<class, net, payload>>; class "unknown" when the  *)
(* string is not an address of one of the known shapes.                    *)
(***************************************************************************)
Classify(cx, str) ==
  LET unknown == <<"unknown", "none", <<>>>>
      sh == DecCheckShape(str)
  IN IF sh.ok /\ Len(sh.body) = 21 /\ Take(H256(cx, sh.body), 4) = sh.sum
     THEN LET v == sh.body[1]  h == Drop(sh.body, 1)
          IN CASE v = 0   -> <<"pkh", "main", h>>
               [] v = 111 -> <<"pkh", "test", h>>
               [] v = 5   -> <<"sh", "main", h>>
               [] v = 196 -> <<"sh", "test", h>>
               [] OTHER   -> unknown
     ELSE LET d == Decode(str)
          IN IF ~d.ok THEN unknown
             ELSE IF d.hrp = <<98, 99>> /\ AddrDecode(<<98, 99>>, str).ok
                  THEN LET a == AddrDecode(<<98, 99>>, str)
                       IN <<IF a.ver = 0 THEN "w0" ELSE "w1+", "main", a.prog>>
             ELSE IF d.hrp = <<116, 98>> /\ AddrDecode(<<116, 98>>, str).ok
                  THEN LET a == AddrDecode(<<116, 98>>, str)
                       IN <<IF a.ver = 0 THEN "w0" ELSE "w1+", "test", a.prog>>
             ELSE unknown
=============================================================================
