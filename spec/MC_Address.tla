----------------------------- MODULE MC_Address -----------------------------
(***************************************************************************)
(* Bounded model for C05/C16 with ABSTRACT hashes (toy functions of the    *)
(* right widths): for every kind x network x key the address decodes, with *)
(* the specification's own decoders, to the expected class, network and    *)
(* payload; no two (class, network) pairs share a version byte / prefix.   *)
(***************************************************************************)
EXTENDS Bytes, TLC

ToySha(cx, x) == [i \in 1..32 |-> (Len(x) * 13 + i * 7 + (IF Len(x) > 0 THEN x[1] + x[Len(x)] ELSE 0) + cx) % 256]
ToyRip(cx, x) == [i \in 1..20 |-> (Len(x) * 5 + i * 11 + (IF Len(x) > 0 THEN x[1] * 3 + x[Len(x)] ELSE 0) + cx) % 256]
ToyH256(cx, x) == [i \in 1..32 |-> (Len(x) * 3 + i * 17 + (IF Len(x) > 0 THEN x[1] + 2 * x[Len(x)] ELSE 0)) % 256]

A == INSTANCE Address WITH Sha <- ToySha, Rip <- ToyRip, H256 <- ToyH256

VARIABLES kind, net, key

vars == <<kind, net, key>>

Keys == { <<2>> \o [i \in 1..32 |-> i], <<3>> \o [i \in 1..32 |-> 255 - i], <<2>> \o [i \in 1..32 |-> 0],
          <<4>> \o [i \in 1..64 |-> (i * 3) % 256] }        \* the last one: an uncompressed key (P2PKH only)

Init == kind \in A!Kinds /\ net \in {"main", "test"} /\ key \in Keys /\ (Len(key) = 65 => kind = "p2pkh")
Next == UNCHANGED vars

DecodesToRightScript ==
  A!Classify(7, A!Addr(7, kind, key, net)) = A!Expected(7, kind, key, net)

NetworkTagIsOwn ==
  A!Classify(7, A!Addr(7, kind, key, net))[2] = net

\* the tags that separate (class, network)
KindsAreSeparated ==
  /\ Cardinality({A!PkhVer("main"), A!PkhVer("test"), A!ShVer("main"), A!ShVer("test")}) = 4
  /\ A!Hrp("main") # A!Hrp("test")

\* template shapes
TemplateShapes ==
  LET h20 == ToyRip(0, key)  h32 == ToySha(0, key)
  IN /\ Len(A!ScriptP2PKH(h20)) = 25 /\ Len(A!ScriptP2SH(h20)) = 23
     /\ Len(A!ScriptP2WPKH(h20)) = 22 /\ Len(A!ScriptP2WSH(h32)) = 34
     /\ (Len(key) = 33 => Len(A!Witness1of1(key)) = 37)
=============================================================================
