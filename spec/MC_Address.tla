----------------------------- MODULE MC_Address -----------------------------
(***************************************************************************)
(* Bounded model for C05/C16 with ABSTRACT hashes (toy functions of the    *)
(* right widths): for every kind x network x key the address decodes, with *)
(* the specification's own decoders, to the expected class, network and    *)
(* payload; no two (class, network) pairs share a version byte / prefix.   *)
(***************************************************************************)
EXTENDS Bytes, TLC

\* The hash OUTPUT is what an address encodes, so the model enumerates hash outputs: the context cx is a
\* chosen prefix (over Alphabet, up to MaxPre bytes - every leading-zero pattern, 0xff runs, mixed) that
\* the toy digests start with; the remaining bytes depend on the input (so different scripts differ).
CONSTANTS MaxPre, Alphabet

Fill(x, n, m) == [i \in 1..n |-> (Len(x) * m + i * 7 + (IF Len(x) > 0 THEN x[1] + x[Len(x)] ELSE 0)) % 256]
ToySha(cx, x) == Take(cx \o Fill(x, 32, 13), 32)
ToyRip(cx, x) == Take(cx \o Fill(x, 20, 5), 20)
ToyH256(cx, x) == [i \in 1..32 |-> (Len(x) * 3 + i * 17 + (IF Len(x) > 0 THEN x[1] + 2 * x[Len(x)] ELSE 0)) % 256]

A == INSTANCE Address WITH Sha <- ToySha, Rip <- ToyRip, H256 <- ToyH256

VARIABLES kind, net, key, pre

vars == <<kind, net, key, pre>>

Keys == { <<2>> \o [i \in 1..32 |-> i], <<3>> \o [i \in 1..32 |-> 255 - i], <<2>> \o [i \in 1..32 |-> 0],
          <<4>> \o [i \in 1..64 |-> (i * 3) % 256] }        \* the last one: an uncompressed key (P2PKH only)

Init == kind = "p2pkh" /\ net = "main" /\ key = <<2>> \o [i \in 1..32 |-> i] /\ pre = <<>>

Grow == /\ Len(pre) < MaxPre
        /\ \E b \in Alphabet : pre' = Append(pre, b)
        /\ UNCHANGED <<kind, net, key>>

Pick == /\ kind' \in A!Kinds /\ net' \in {"main", "test"} /\ key' \in Keys
        /\ (Len(key') = 65 => kind' = "p2pkh")
        /\ UNCHANGED pre

Next == Grow \/ Pick

DecodesToRightScript ==
  A!Classify(pre, A!Addr(pre, kind, key, net)) = A!Expected(pre, kind, key, net)

NetworkTagIsOwn ==
  A!Classify(pre, A!Addr(pre, kind, key, net))[2] = net

\* Base58Check addresses: one leading '1' per leading zero byte of the 21-byte payload (mainnet P2PKH, version 0,
\* followed by a HASH160 that starts with zero bytes, is the only way to get more than one)
LeadingOnes ==
  LET a == A!Addr(pre, kind, key, net)
      e == A!Expected(pre, kind, key, net)
  IN kind \in {"p2pkh", "p2sh_p2wpkh", "p2sh_p2wsh"} =>
       CountLeading(a, 49) = (IF e[1] = "pkh" /\ net = "main" THEN 1 + CountLeading(e[3], 0) ELSE 0)

\* the tags that separate (class, network)
KindsAreSeparated ==
  /\ Cardinality({A!PkhVer("main"), A!PkhVer("test"), A!ShVer("main"), A!ShVer("test")}) = 4
  /\ A!Hrp("main") # A!Hrp("test")

\* template shapes
TemplateShapes ==
  LET h20 == ToyRip(pre, key)  h32 == ToySha(pre, key)
  IN /\ Len(A!ScriptP2PKH(h20)) = 25 /\ Len(A!ScriptP2SH(h20)) = 23
     /\ Len(A!ScriptP2WPKH(h20)) = 22 /\ Len(A!ScriptP2WSH(h32)) = 34
     /\ (Len(key) = 33 => Len(A!Witness1of1(key)) = 37)
=============================================================================
