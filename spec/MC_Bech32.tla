----------------------------- MODULE MC_Bech32 -----------------------------
(***************************************************************************)
(* Bounded models for C11 at REAL scale (the codes are small enough).      *)
(*                                                                         *)
(* mode "grid": the full grid witness version 0..17 x program length 0..42 *)
(*   x program patterns x prefixes: encode/decode round trip where the     *)
(*   combination is legal, no address where it is not, right checksum      *)
(*   constant per version, wrong constant rejected.                        *)
(*                                                                         *)
(* mode "syn": error detection by linearity.  Syn(p, e) is the linear part *)
(*   of the checksum polynomial for error value e at data position p of a  *)
(*   string with L data symbols.  The only state variable is a syndrome;   *)
(*   the initial states are the syndromes of ALL error patterns of weight  *)
(*   <= 2 (family A) and, with Cross = TRUE, Delta (+) the syndromes of    *)
(*   all patterns of weight <= 1 (family B).  Two patterns with the same   *)
(*   syndrome collapse into one state, so                                  *)
(*     #distinct states = #patterns  <=>  no collision                     *)
(*   and (see DESIGN.md C11)                                               *)
(*     no collision inside A  <=> every error of weight <= 4 is detected   *)
(*                                 under either checksum constant;         *)
(*     no collision A / B     <=> no error of weight <= 3 turns a valid    *)
(*                                 Bech32 string into a valid Bech32m      *)
(*                                 string or back.                         *)
(*   The count is compared in the POSTCONDITION.                           *)
(***************************************************************************)
EXTENDS Bech32, TLC

CONSTANTS Mode,      \* "grid" | "syn"
          L,         \* number of data symbols (incl. version and checksum) for "syn"
          Cross,     \* BOOLEAN: add family B
          Vers, Lens \* grid bounds

VersAll == 0..17
LensAll == 0..42
VersQuick == {0, 1, 2, 16, 17}
LensQuick == {0, 1, 2, 19, 20, 21, 31, 32, 33, 39, 40, 41, 42}

VARIABLES mode, a, b, c, syn

vars == <<mode, a, b, c, syn>>

---------------------------------------------------------------------------
PolyLin(values) == FoldLeft(PolyStep, 0, values)
\* syndrome table: position p counted from the left, 1..L
SynTab == [p \in 1..L |-> [e \in 1..31 |-> PolyLin(<<e>> \o Zeros(L - p))]]
Delta == Bech32Const ^^ Bech32mConst

PairSyns(p1) == {SynTab[p1][e1] ^^ SynTab[p2][e2] : p2 \in (p1+1)..L, e1 \in 1..31, e2 \in 1..31}
SingleSyns == {SynTab[p][e] : p \in 1..L, e \in 1..31}

ExpectedA == 1 + 31 * L + 31 * 31 * ((L * (L - 1)) \div 2)
ExpectedB == 1 + 31 * L
Expected == IF Cross THEN ExpectedA + ExpectedB ELSE ExpectedA

---------------------------------------------------------------------------
Hrps == << <<98, 99>>, <<116, 98>>, <<97>>,
           [i \in 1..20 |-> 97 + (i % 26)] >>
Prog(pat, n) == CASE pat = 1 -> [i \in 1..n |-> 0]
                  [] pat = 2 -> [i \in 1..n |-> 255]
                  [] pat = 3 -> [i \in 1..n |-> (i * 73 + 19) % 256]

InitGrid == mode = "root" /\ a = 0 /\ b = 0 /\ c = 0 /\ syn = 0
InitSyn ==
  /\ mode = "syn" /\ a = 0 /\ b = 0 /\ c = 0
  /\ \/ syn = 0
     \/ syn \in SingleSyns
     \/ \E p1 \in 1..(L-1) : syn \in PairSyns(p1)
     \/ Cross /\ (syn = Delta \/ syn \in {Delta ^^ s : s \in SingleSyns})

Init == IF Mode = "grid" THEN InitGrid ELSE InitSyn

\* the grid is spread over three levels so that TLC's workers share it
PickVer == mode = "root" /\ mode' = "ver" /\ a' \in Vers /\ UNCHANGED <<b, c, syn>>
PickLen == mode = "ver" /\ mode' = "len" /\ b' \in Lens /\ UNCHANGED <<a, c, syn>>
PickRest == mode = "len" /\ mode' = "grid" /\ c' \in (1..3) \X (1..Len(Hrps)) /\ UNCHANGED <<a, b, syn>>

Next == PickVer \/ PickLen \/ PickRest

---------------------------------------------------------------------------
GridCase == [hrp |-> Hrps[c[2]], ver |-> a, prog |-> Prog(c[1], b)]

EncDecRoundTrip ==
  mode = "grid" =>
    LET g == GridCase
        e == AddrEncode(g.hrp, g.ver, g.prog)
    IN IF LegalProgram(g.ver, Len(g.prog)) /\ Len(g.hrp) + 8 + SymLen(Len(g.prog)) <= 90
       THEN /\ e.ok
            /\ Len(e.str) <= 90
            /\ LET d == AddrDecode(g.hrp, e.str)
               IN d.ok /\ d.ver = g.ver /\ d.prog = g.prog
            \* upper-case form decodes to the same, mixed case does not decode
            /\ AddrDecode(g.hrp, ToUpper(e.str)).ok
            /\ (ToUpper(e.str) # e.str => ~AddrDecode(g.hrp, <<Upper(e.str[1])>> \o Drop(e.str, 1)).ok
                                         \/ Upper(e.str[1]) = e.str[1])
            \* a different prefix is refused
            /\ ~AddrDecode(<<120>> \o g.hrp, e.str).ok
            \* the checksum constant is the one prescribed for the version...
            /\ Decode(e.str).const = (IF g.ver = 0 THEN Bech32Const ELSE Bech32mConst)
            \* ...and the same data under the other constant is refused
            /\ LET other == EncodeStr(g.hrp, <<g.ver>> \o ConvertBits(g.prog, 8, 5, TRUE).out,
                                      IF g.ver = 0 THEN Bech32mConst ELSE Bech32Const)
               IN Decode(other).ok /\ ~AddrDecode(g.hrp, other).ok /\ AddrDecode(g.hrp, other).why = "const"
       ELSE ~e.ok

IllegalHasNoAddress ==
  mode = "grid" =>
     (AddrEncode(GridCase.hrp, GridCase.ver, GridCase.prog).ok
        <=> (a \in 0..16 /\ b \in 2..40 /\ (a = 0 => b \in {20, 32})
             /\ Len(GridCase.hrp) + 8 + SymLen(b) <= 90))

\* non-zero padding and over-long padding are refused
PaddingRule ==
  mode = "grid" /\ LegalProgram(a, b) /\ c[1] = 3 /\ AddrEncode(GridCase.hrp, a, GridCase.prog).ok =>
    LET g == GridCase
        d5 == ConvertBits(g.prog, 8, 5, TRUE).out
    IN IF (8 * b) % 5 # 0
       THEN \* set the lowest padding bit: non-zero padding
            LET bad == [d5 EXCEPT ![Len(d5)] = d5[Len(d5)] + 1]
                s == EncodeStr(g.hrp, <<g.ver>> \o bad, ConstFor(g.ver))
            IN Decode(s).ok /\ ~AddrDecode(g.hrp, s).ok /\ AddrDecode(g.hrp, s).why = "padding"
       ELSE \* a whole extra zero symbol: five padding bits
            LET long == EncodeStr(g.hrp, <<g.ver>> \o d5 \o <<0>>, ConstFor(g.ver))
            IN Len(long) <= 90 =>
                 Decode(long).ok /\ ~AddrDecode(g.hrp, long).ok /\ AddrDecode(g.hrp, long).why = "padding"

CountOK == (Mode = "syn") => (TLCGet("stats").distinct = Expected
                              \/ ~PrintT(<<"SYNDROME-COLLISION", L, Cross, TLCGet("stats").distinct, Expected>>))
=============================================================================
