INIT Init
NEXT Next
INVARIANT AcceptIffValid
INVARIANT WifRoundTrip
