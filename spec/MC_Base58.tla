----------------------------- MODULE MC_Base58 -----------------------------
(***************************************************************************)
(* Bounded exhaustive model for C10 on the REAL alphabet at small lengths: *)
(* every byte string of length 1..MaxB and every string over the alphabet  *)
(* of length 1..MaxS is one initial state; the checksummed decoder is      *)
(* explored with a TLC-chosen hash (every value of the 4 checksum bytes    *)
(* that matters: equal / differing in exactly one position).               *)
(***************************************************************************)
EXTENDS Base58, TLC

CONSTANTS MaxB, MaxS

VARIABLES kind, x, h

vars == <<kind, x, h>>

ByteStrings == UNION {[1..n -> Byte] : n \in 1..MaxB}
AlphaStrings == UNION {[1..n -> {Alphabet[i] : i \in 1..58}] : n \in 1..MaxS}

\* payloads and candidate hashes for the checksummed clause
Payloads == {<<>>, <<0>>, <<0, 0>>, <<1>>, <<0, 255>>, <<128, 0, 7>>}
Sums == {<<0,0,0,0>>, <<0,0,0,1>>, <<1,0,0,0>>, <<255,255,255,255>>, <<0,0,1,0>>}

Init == \/ kind = "bytes" /\ x \in ByteStrings /\ h = <<>>
        \/ kind = "str" /\ x \in AlphaStrings /\ h = <<>>
        \/ kind = "check" /\ x \in (Payloads \X Sums) /\ h \in Sums   \* x = <<payload, sum carried by the string>>

Next == UNCHANGED vars

RoundTripBytes == kind = "bytes" => Dec(Enc(x)) = x
LeadingZerosOneForOne == kind = "bytes" => CountLeading(Enc(x), 49) = CountLeading(x, 0)
EncOverAlphabet == kind = "bytes" => AllInAlphabet(Enc(x))
RoundTripStr == kind = "str" => Enc(Dec(x)) = x

\* the checksummed decoder accepts iff the carried sum equals the first four
\* bytes of the (TLC-chosen) hash of the body, and then returns the body
AcceptIffChecksum ==
  kind = "check" =>
    LET s == Enc(x[1] \o x[2])
        sh == DecCheckShape(s)
    IN /\ sh.ok
       /\ sh.body = x[1] /\ sh.sum = x[2]
       /\ ((sh.sum = h) <=> (x[2] = h))

\* strings too short to hold a checksum are rejected before any hash is used
ShortRejected == kind = "str" => (Len(Dec(x)) < 4 => ~DecCheckShape(x).ok)
=============================================================================
