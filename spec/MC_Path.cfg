CONSTANTS MaxLen = 5
MaxDeep = 9
INIT Init
NEXT Next
INVARIANT ParseMatchesTable
INVARIANT RoundTrip
INVARIANT MarkersEquivalent
INVARIANT FaultRejected
INVARIANT DeepHonouredOrRejected
