CONSTANTS TapeBytes = {0, 1, 2, 3, 75, 76, 77, 78, 81, 252, 253, 254, 255}
MaxTape = 4
LenSet <- LenAll
INIT Init
NEXT Next
INVARIANT TypeOK
INVARIANT AcceptConsumesExactlyDeclared
INVARIANT FoldAgrees
INVARIANT AcceptedAccountsForBytes
INVARIANT NoEarlyAccept
INVARIANT HeaderShape
INVARIANT LenRoundTrip
INVARIANT ScriptRoundTrip
INVARIANT VarintRoundTrip
PROPERTY FailIsFinal
PROPERTY DoneIsFinal
