INIT Init
NEXT Next
INVARIANT DecodesToRightScript
INVARIANT NetworkTagIsOwn
INVARIANT KindsAreSeparated
INVARIANT TemplateShapes
