CONSTANTS
MaxPre = 3
Alphabet = {0, 1, 255}
INIT Init
NEXT Next
INVARIANT DecodesToRightScript
INVARIANT NetworkTagIsOwn
INVARIANT KindsAreSeparated
INVARIANT TemplateShapes
INVARIANT LeadingOnes
