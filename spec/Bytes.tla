------------------------------- MODULE Bytes -------------------------------
(***************************************************************************)
(* Fixed-width big-endian byte-sequence naturals, bit sequences and small  *)
(* helpers.  Every quantity that can exceed TLC's 32-bit integers (private *)
(* scalars, curve order, 32-bit child numbers, 64-bit varints) is a        *)
(* sequence of 0..255 and all arithmetic is carry/borrow propagation over  *)
(* bytes, so the same operator text is evaluated with Width = 1 in the     *)
(* bounded models and Width = 32 on recorded events of the real code.      *)
(* All loops are folds (strict, Java-overridden); see DESIGN.md section 8. *)
(***************************************************************************)
EXTENDS Naturals, Sequences, SequencesExt, FiniteSets

Byte == 0..255

IsBytes(s) == /\ DOMAIN s = 1..Len(s)
              /\ \A i \in 1..Len(s) : s[i] \in Byte

Zeros(n) == [i \in 1..n |-> 0]
Rep(b, n) == [i \in 1..n |-> b]

Take(s, n) == SubSeq(s, 1, IF n < Len(s) THEN n ELSE Len(s))
Drop(s, n) == SubSeq(s, n + 1, Len(s))

IsZero(s) == \A i \in 1..Len(s) : s[i] = 0

Max2(a, b) == IF a >= b THEN a ELSE b
Min2(a, b) == IF a <= b THEN a ELSE b

(***************************************************************************)
(* Comparison of equal-length big-endian sequences.                        *)
(***************************************************************************)
Cmp(a, b) ==   \* 0 equal, 1 a<b, 2 a>b
  FoldLeft(LAMBDA acc, i : IF acc # 0 THEN acc
                           ELSE IF a[i] < b[i] THEN 1
                           ELSE IF a[i] > b[i] THEN 2 ELSE 0,
           0, [i \in 1..Len(a) |-> i])
Less(a, b) == Cmp(a, b) = 1
Leq(a, b)  == Cmp(a, b) # 2

(***************************************************************************)
(* a + b over equal-length sequences: <<carry, sum>> with Len(sum)=Len(a). *)
(***************************************************************************)
AddC(a, b) ==
  LET n == Len(a)
      step(acc, j) ==        \* j runs 1..n, position n+1-j
        LET i == n + 1 - j
            t == a[i] + b[i] + acc[1]
        IN <<t \div 256, <<t % 256>> \o acc[2]>>
  IN FoldLeft(step, <<0, <<>>>>, [j \in 1..n |-> j])

(***************************************************************************)
(* a - b over equal-length sequences, a >= b assumed: difference.          *)
(***************************************************************************)
SubB(a, b) ==
  LET n == Len(a)
      step(acc, j) ==
        LET i == n + 1 - j
            t == a[i] - b[i] - acc[1]
        IN IF t < 0 THEN <<1, <<t + 256>> \o acc[2]>>
                    ELSE <<0, <<t>> \o acc[2]>>
  IN FoldLeft(step, <<0, <<>>>>, [j \in 1..n |-> j])[2]

(***************************************************************************)
(* (a + b) mod N for a, b < 2^(8*Len), Len(a)=Len(b)=Len(N); a, b need not *)
(* be reduced but a + b < 2N must hold when a carry occurs, which is the   *)
(* case for a < N or b < N and 2^(8 Len) < 2N (true for secp256k1's n and  *)
(* for the toy order used with Width 1 when N > 128; the bounded models    *)
(* with smaller N use AddModSmall instead).                                *)
(***************************************************************************)
AddModN(a, b, N) ==
  LET r == AddC(a, b)
      s33 == <<r[1]>> \o r[2]
      n33 == <<0>> \o N
  IN IF Cmp(s33, n33) = 1 THEN r[2] ELSE Drop(SubB(s33, n33), 1)

(***************************************************************************)
(* Small-number conversions (values that fit TLC integers only).           *)
(***************************************************************************)
ToNat(s) == FoldLeft(LAMBDA acc, b : acc * 256 + b, 0, s)

RECURSIVE FromNatR(_, _)
FromNatR(v, w) == IF w = 0 THEN <<>> ELSE FromNatR(v \div 256, w - 1) \o <<v % 256>>
FromNat(v, w) == FromNatR(v, w)          \* big-endian, exactly w bytes
FromNatLE(v, w) == Reverse(FromNatR(v, w))
ToNatLE(s) == ToNat(Reverse(s))

(***************************************************************************)
(* Bits.                                                                   *)
(***************************************************************************)
ByteBits(b) == <<(b \div 128) % 2, (b \div 64) % 2, (b \div 32) % 2, (b \div 16) % 2,
                 (b \div 8) % 2, (b \div 4) % 2, (b \div 2) % 2, b % 2>>
ToBits(s) == [i \in 1..(8 * Len(s)) |->
                LET bb == ByteBits(s[((i - 1) \div 8) + 1]) IN bb[((i - 1) % 8) + 1]]
BitsToNat(bits) == FoldLeft(LAMBDA acc, b : acc * 2 + b, 0, bits)
\* regroup a bit sequence whose length is a multiple of w into w-bit numbers
Regroup(bits, w) == [j \in 1..(Len(bits) \div w) |->
                        BitsToNat(SubSeq(bits, (j - 1) * w + 1, j * w))]
NatToBits(v, w) == [i \in 1..w |-> (v \div (2 ^ (w - i))) % 2]
FromBits(bits) == Regroup(bits, 8)

(***************************************************************************)
(* Sequence utilities.                                                     *)
(***************************************************************************)
Flatten(ss) == FoldLeft(LAMBDA acc, s : acc \o s, <<>>, ss)
IndexOf(s, x) == IF \E i \in 1..Len(s) : s[i] = x
                 THEN CHOOSE i \in 1..Len(s) : s[i] = x /\ \A j \in 1..(i-1) : s[j] # x
                 ELSE 0
CountLeading(s, x) ==
  FoldLeft(LAMBDA acc, y : IF acc[2] /\ y = x THEN <<acc[1] + 1, TRUE>> ELSE <<acc[1], FALSE>>,
           <<0, TRUE>>, s)[1]
IsSubSeqOf(needle, hay) ==
  /\ Len(needle) <= Len(hay)
  /\ \E i \in 0..(Len(hay) - Len(needle)) : SubSeq(hay, i + 1, i + Len(needle)) = needle

(***************************************************************************)
(* Generic radix conversion of a big-endian digit sequence from base `from`*)
(* to base `to` (schoolbook: for every input digit, multiply the           *)
(* little-endian accumulator by `from` and add).  Result big-endian with   *)
(* no leading zero digits (<<>> for zero).                                 *)
(***************************************************************************)
MulAdd(acc, from, to, d) ==
  \* acc little-endian digits in base `to`; returns acc*from + d
  LET r == FoldLeft(LAMBDA st, x : LET t == x * from + st[1]
                                   IN <<t \div to, Append(st[2], t % to)>>,
                    <<d, <<>>>>, acc)
      RECURSIVE Spill(_, _)
      Spill(c, s) == IF c = 0 THEN s ELSE Spill(c \div to, Append(s, c % to))
  IN Spill(r[1], r[2])

Radix(digits, from, to) ==
  Reverse(FoldLeft(LAMBDA acc, d : MulAdd(acc, from, to, d), <<>>, digits))

\* lower-case hex digits (code points) of a byte sequence
HexDigit(n) == IF n < 10 THEN 48 + n ELSE 87 + n
Hex(s) == Flatten([i \in 1..Len(s) |-> <<HexDigit(s[i] \div 16), HexDigit(s[i] % 16)>>])
=============================================================================
