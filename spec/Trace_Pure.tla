----------------------------- MODULE Trace_Pure -----------------------------
(***************************************************************************)
(* Trace validation for the stateless codec layer.  Each recorded event is *)
(* one public call of the implementation with its arguments and its        *)
(* outcome; Verdict(e) re-derives the outcome from the specification       *)
(* modules and names the first clause that disagrees.  Verdicts are total: *)
(* a disagreement is printed as <<"RJ", id, clause>> and the trace goes on.*)
(***************************************************************************)
EXTENDS Bytes, Base58, Wire, Bech32, PathGrammar, Oracle, Json, IOUtils, TLC

PairH256(e, l, r) == Hash256(e, l \o r)
MK == INSTANCE Merkle WITH PairHash <- PairH256

Trace == JsonDeserialize(IOEnv.TRACE_FILE)

VARIABLE l

Raised(e) == ~e.res.ok

---------------------------------------------------------------------------
\* C10 Base58 / Base58Check
V_B58Enc(e) ==
  IF Len(e.inp) = 0 THEN "ok"                       \* property: non-empty byte strings
  ELSE IF Raised(e) THEN "enc-raised"
  ELSE IF e.res.v # Enc(e.inp) THEN "enc-value"
  ELSE IF CountLeading(e.res.v, 49) # CountLeading(e.inp, 0) THEN "enc-leading-zeros"
  ELSE "ok"

V_B58Dec(e) ==
  IF Len(e.inp) = 0 THEN "ok"
  ELSE IF ~AllInAlphabet(e.inp)
       THEN IF Raised(e) THEN "ok" ELSE "dec-accepted-bad-character"
  ELSE IF Raised(e) THEN "dec-raised"
  ELSE IF e.res.v # Dec(e.inp) THEN "dec-value"
  ELSE IF Enc(e.res.v) # e.inp THEN "dec-not-inverse-of-enc"
  ELSE "ok"

V_B58EncCheck(e) ==
  IF Raised(e) THEN "enccheck-raised"
  ELSE IF e.res.v # EncCheck(e.inp, Hash256(e, e.inp)) THEN "enccheck-value"
  ELSE "ok"

V_B58DecCheck(e) ==
  LET sh == DecCheckShape(e.inp)
  IN IF ~sh.ok
     THEN IF Raised(e) THEN "ok" ELSE "deccheck-accepted-" \o sh.why
     ELSE IF Take(Hash256(e, sh.body), 4) # sh.sum
          THEN IF Raised(e) THEN "ok" ELSE "deccheck-accepted-bad-checksum"
          ELSE IF Raised(e) THEN "deccheck-raised-on-valid"
               ELSE IF e.res.v # sh.body THEN "deccheck-body" ELSE "ok"

---------------------------------------------------------------------------
\* C19 script and varint wire encodings
HasEmptyElem(cmds) == \E i \in 1..Len(cmds) : ~IsOp(cmds[i]) /\ Len(cmds[i].d) = 0

V_ScriptSer(e) ==            \* e.inp = [cmds, raw]
  IF HasEmptyElem(e.inp.cmds) THEN "ok"         \* property: elements of 1..520 bytes
  ELSE LET r == IF e.inp.raw THEN RawSerializeScript(e.inp.cmds) ELSE SerializeScript(e.inp.cmds)
       IN IF ~r.ok THEN (IF Raised(e) THEN "ok" ELSE "ser-accepted-oversize-element")
          ELSE IF Raised(e) THEN "ser-refused-legal-element"
          ELSE IF e.res.v # r.bytes THEN "ser-bytes"
          ELSE "ok"

V_ScriptParse(e) ==          \* e.inp = tape; e.res.v = [cmds, used]
  LET p == ParseScript(e.inp)
  IN IF ~p.ok THEN (IF Raised(e) THEN "ok"
                    ELSE IF p.phase = "fail" THEN "parse-accepted-length-mismatch"
                    ELSE IF p.phase \in {"len0", "lenN"} THEN "parse-accepted-truncated-varint"
                    ELSE "parse-accepted-truncated-input")
     \* a stream that hands out fewer bytes than asked for (pipe, socket): refusing it is fine, mis-reading it is not
     ELSE IF Raised(e) /\ "stream" \in DOMAIN e /\ e.stream = "short-reads" THEN "ok"
     ELSE IF Raised(e) THEN "parse-raised-on-valid"
     ELSE IF e.res.v.cmds # p.cmds THEN "parse-cmds"
     ELSE IF e.res.v.used # p.used THEN "parse-consumed"
     \* the PARSED object serialises like any script with these commands: standard minimal pushes, or a refusal when
     \* an element is over 520 bytes (whatever the bytes it was parsed from looked like)
     ELSE IF "reser" \in DOMAIN e.res.v /\ ~HasEmptyElem(p.cmds)
          THEN LET r == RawSerializeScript(p.cmds)
               IN IF ~r.ok THEN (IF e.res.v.reser.ok THEN "parse-then-serialise-accepted-oversize-element" ELSE "ok")
                  ELSE IF ~e.res.v.reser.ok THEN "parse-then-serialise-refused-legal-script"
                  ELSE IF e.res.v.reser.bytes # r.bytes THEN "parse-then-serialise-not-standard-form"
                  ELSE "ok"
     ELSE "ok"

V_VarintEnc(e) ==            \* e.inp = LE value bytes
  LET r == EncVarint(e.inp)
  IN IF ~r.ok THEN (IF Raised(e) THEN "ok" ELSE "varint-accepted-too-large")
     ELSE IF Raised(e) THEN "varint-enc-raised"
     ELSE IF e.res.v # r.bytes THEN "varint-enc-bytes"
     ELSE "ok"

V_VarintRead(e) ==           \* e.inp = tape; e.res.v = [val (LE trimmed), used]
  LET r == ReadVarint(e.inp)
  IN IF ~r.ok THEN (IF Raised(e) THEN "ok" ELSE "varint-accepted-short-read")
     ELSE IF Raised(e) /\ "stream" \in DOMAIN e /\ e.stream = "short-reads" THEN "ok"
     ELSE IF Raised(e) THEN "varint-read-raised"
     ELSE IF e.res.v.val # r.val THEN "varint-read-value"
     ELSE IF e.res.v.used # r.used THEN "varint-read-consumed"
     ELSE "ok"

---------------------------------------------------------------------------
\* C11 segwit addresses (BIP173 / BIP350)
V_SegwitEnc(e) ==            \* e.inp = [hrp, ver, prog]; no address = None or exception
  LET r == IF e.inp.ver < 0 \/ e.inp.ver > 31 THEN [ok |-> FALSE, str |-> <<>>]
           ELSE AddrEncode(e.inp.hrp, e.inp.ver, e.inp.prog)
  IN IF ~r.ok THEN (IF Raised(e) THEN "ok" ELSE "enc-address-for-illegal-input")
     ELSE IF Raised(e) THEN "enc-no-address-for-legal-input"
     ELSE IF e.res.v # r.str THEN "enc-string"
     ELSE LET d == AddrDecode(e.inp.hrp, e.res.v)     \* independent direction: decode what was emitted
          IN IF ~d.ok \/ d.ver # e.inp.ver \/ d.prog # e.inp.prog THEN "enc-does-not-decode-back"
             ELSE IF Decode(e.res.v).const # ConstFor(e.inp.ver) THEN "enc-wrong-constant"
             ELSE "ok"

Hamming(s, t) == Cardinality({i \in 1..Len(s) : s[i] # t[i]})

V_SegwitDec(e) ==            \* e.inp = [hrp, addr] (+ orig: the valid address it was mutated from)
  LET r == AddrDecode(e.inp.hrp, e.inp.addr)
      hasOrig == "orig" \in DOMAIN e.inp
      \* substitution errors the property promises to detect
      mustReject ==
        /\ hasOrig /\ Len(e.inp.orig) = Len(e.inp.addr) /\ e.inp.orig # e.inp.addr
        /\ LET w == Hamming(ToLower(e.inp.orig), ToLower(e.inp.addr))
               sep == LastIndexOf(e.inp.orig, 49)
               v0a == e.inp.orig[sep + 1] = 113            \* 'q' = witness version 0
               v0b == Lower(e.inp.addr[sep + 1]) = 113
           IN w >= 1 /\ (w <= 3 \/ (w = 4 /\ v0a = v0b))
  IN IF mustReject /\ r.ok THEN "spec-accepts-substitution-error"
     ELSE IF mustReject /\ ~Raised(e) THEN "dec-accepted-substitution-error"
     ELSE IF ~r.ok THEN (IF Raised(e) THEN "ok" ELSE "dec-accepted-" \o r.why)
     ELSE IF Raised(e) THEN "dec-rejected-valid"
     ELSE IF e.res.v.ver # r.ver THEN "dec-version"
     ELSE IF e.res.v.prog # r.prog THEN "dec-program"
     ELSE "ok"

---------------------------------------------------------------------------
\* C17 path strings
\* e.fold: sequence of [list, node] - iterated single-step derivation from a fresh
\* master by the implementation itself (its correctness is C01's business)
HasFold(e, list) == \E j \in 1..Len(e.fold) : e.fold[j].list = list
FoldOf(e, list) == IF HasFold(e, list)
                   THEN e.fold[CHOOSE j \in 1..Len(e.fold) : e.fold[j].list = list].node
                   ELSE IF PrintT(<<"MISS", e.id, "fold">>) THEN <<>> ELSE <<>>
\* how the node obtained by stepping ckd from a fresh wallet prints itself (the format is the library's business;
\* that the node looked up by path prints the same is part of "equals applying each component in order")
FoldRepr(e, list) == e.fold[CHOOSE j \in 1..Len(e.fold) : e.fold[j].list = list].repr
InRange(lst) == \A i \in 1..Len(lst) : Len(lst[i]) = 4
\* the named deviation of the pinned code: everything after the fifth component is ignored
\* (the truncated string may itself end in '/', which the statement leaves open: its evident list counts too)
TailIgnoredList(str) == LET t == Parse(TruncatedString(str))
                        IN IF t.kind = "ok" \/ (t.kind = "either" /\ t.why = "lenient-evident") THEN t.list ELSE << <<-2>> >>

V_PathParse(e) ==            \* e.inp = str; e.res.v = [list, str, private]
  LET p == Parse(e.inp)
  IN IF p.kind = "either"
     THEN \* decorated numerals / trailing '/': an error, or the evident list (first five levels for deep paths)
          IF p.why # "lenient-evident" \/ Raised(e) \/ ~InRange(e.res.v.list) THEN "ok"
          ELSE IF e.res.v.list = p.list \/ (Len(p.list) > 5 /\ e.res.v.list = IgnoreTail(p.list)) THEN "ok"
          ELSE "parse-decorated-numeral-read-as-other-value"
     ELSE IF p.kind = "ok" /\ Len(p.list) <= 5
          THEN IF Raised(e) THEN "parse-raised-on-valid"
               ELSE IF e.res.v.list # p.list THEN "parse-list"
               ELSE IF e.res.v.private # p.private THEN "parse-root"
               \* formatting then re-parsing is the identity (either marker may be printed): the printed string is read
               \* back with the specification's own grammar
               ELSE IF LET q == Parse(e.res.v.str)
                       IN q.kind # "ok" \/ q.list # p.list \/ q.private # p.private THEN "parse-format"
               ELSE "ok"
     ELSE IF p.kind = "ok"       \* more than five levels: honoured in full or rejected
          THEN IF Raised(e) THEN "ok"
               ELSE IF e.res.v.list = p.list THEN "ok"
               ELSE IF e.res.v.list = IgnoreTail(p.list) THEN "deep-tail-ignored"
               ELSE "parse-list"
     ELSE \* reject: an exception here, or a list whose derivation must fail (judged in ByPath)
          IF Raised(e) \/ ~InRange(e.res.v.list) THEN "ok"
          ELSE IF NTok(e.inp) > 5 /\ e.res.v.list = TailIgnoredList(e.inp) THEN "deep-tail-ignored"
          ELSE "parse-accepted-" \o p.why

\* growth: the path predicates that select versions and networks (e.inp = str; e.res.v = record of predicates)
V_PathProps(e) ==
  LET p == Parse(e.inp)
  IN IF p.kind # "ok" \/ Len(p.list) > 5 THEN "ok"
     ELSE IF Raised(e) THEN "pathprops-raised-on-valid"
     ELSE LET w == PathProps(p.list)  g == e.res.v
          IN IF g.bip44 # w.bip44 \/ g.bip49 # w.bip49 \/ g.bip84 # w.bip84 THEN "pathprops-purpose"
             ELSE IF g.mainnet # w.mainnet \/ g.testnet # w.testnet THEN "pathprops-coin"
             ELSE IF g.external # w.external THEN "pathprops-chain"
             ELSE IF g.bip # w.bip THEN "pathprops-bip"
             ELSE IF g.mark # (IF p.private THEN <<109>> ELSE <<77>>) THEN "pathprops-root-mark"
             ELSE "ok"

V_ByPath(e) ==               \* e.inp = [path, wallet]; e.res.v = [node, repr]
  LET p == Parse(e.inp.path)
  IN IF p.kind = "either"
     THEN IF p.why # "lenient-evident" \/ Raised(e) THEN "ok"
          ELSE IF HasFold(e, p.list) /\ e.res.v.node = FoldOf(e, p.list) THEN "ok"
          ELSE "bypath-decorated-numeral-derived-other-key"
     ELSE IF p.kind = "ok" /\ Len(p.list) <= 5
          THEN IF Raised(e) THEN "bypath-raised-on-valid"
               ELSE IF e.res.v.node # FoldOf(e, p.list) THEN "bypath-not-fold-of-ckd"
               ELSE IF e.res.v.repr # FoldRepr(e, p.list) THEN "bypath-node-repr"
               ELSE "ok"
     ELSE IF p.kind = "ok"
          THEN IF Raised(e) THEN "ok"
               ELSE IF e.res.v.node = FoldOf(e, p.list) THEN "ok"
               ELSE IF e.res.v.node = FoldOf(e, IgnoreTail(p.list)) THEN "deep-tail-ignored"
               ELSE "bypath-not-fold-of-ckd"
     ELSE IF Raised(e) THEN "ok"
          ELSE IF NTok(e.inp.path) > 5 /\ InRange(TailIgnoredList(e.inp.path))
                  /\ HasFold(e, TailIgnoredList(e.inp.path))
                  /\ e.res.v.node = FoldOf(e, TailIgnoredList(e.inp.path)) THEN "deep-tail-ignored"
          ELSE "bypath-derived-from-malformed-" \o p.why

---------------------------------------------------------------------------
\* growth beyond the listed properties
\* merkle helpers: e.inp = list of hashes; e.res.v = [level | root]; e.after = the caller's list afterwards
V_MerkleLevel(e) ==
  IF Len(e.inp) = 0 THEN "ok"
  ELSE LET r == MK!ParentLevel(e, e.inp)
       IN IF ~r.ok THEN (IF Raised(e) THEN "ok" ELSE "merkle-level-of-one-accepted")
          ELSE IF Raised(e) THEN "merkle-level-raised"
          ELSE IF e.res.v # r.level THEN "merkle-level-value"
          ELSE IF e.after # r.caller THEN "merkle-level-caller-list"
          ELSE "ok"
V_MerkleRoot(e) ==
  LET r == MK!Root(e, e.inp)
  IN IF ~r.ok THEN (IF Raised(e) THEN "ok" ELSE "merkle-root-of-nothing")
     ELSE IF Raised(e) THEN "merkle-root-raised"
     ELSE IF e.res.v # r.root THEN "merkle-root-value"
     ELSE "ok"

\* Script.__add__: concatenation of command lists; serialisation of the sum = concatenation of the raw parts
V_ScriptAdd(e) ==            \* e.inp = [a, b] (command lists); e.res.v = [cmds, raw]
  IF Raised(e) THEN "script-add-raised"
  ELSE IF e.res.v.cmds # e.inp.a \o e.inp.b THEN "script-add-commands"
  ELSE IF HasEmptyElem(e.inp.a \o e.inp.b) THEN "ok"
  ELSE LET ra == RawSerializeScript(e.inp.a)  rb == RawSerializeScript(e.inp.b)
       IN IF ra.ok /\ rb.ok /\ e.res.v.raw # ra.bytes \o rb.bytes THEN "script-add-serialisation" ELSE "ok"

\* helper.bech32_decode_address(addr): the witness program of a bc/tb address (hrp = first two characters)
V_Bech32DecodeAddress(e) ==
  LET r == IF Len(e.inp) < 2 THEN [ok |-> FALSE] ELSE AddrDecode(ToLower(Take(e.inp, 2)), e.inp)
  IN IF ~r.ok THEN "ok"                      \* the helper's behaviour on invalid input is not specified anywhere
     ELSE IF Take(e.inp, 2) # ToLower(Take(e.inp, 2)) THEN "ok"   \* upper-case addresses: helper compares the raw prefix
     ELSE IF Raised(e) THEN "bech32-decode-address-raised"
     ELSE IF e.res.v # r.prog THEN "bech32-decode-address-program"
     ELSE "ok"

---------------------------------------------------------------------------
Verdict(e) ==
  CASE e.act = "B58Enc" -> V_B58Enc(e)
    [] e.act = "B58Dec" -> V_B58Dec(e)
    [] e.act = "B58EncCheck" -> V_B58EncCheck(e)
    [] e.act = "B58DecCheck" -> V_B58DecCheck(e)
    [] e.act = "ScriptSer" -> V_ScriptSer(e)
    [] e.act = "ScriptParse" -> V_ScriptParse(e)
    [] e.act = "VarintEnc" -> V_VarintEnc(e)
    [] e.act = "VarintRead" -> V_VarintRead(e)
    [] e.act = "SegwitEnc" -> V_SegwitEnc(e)
    [] e.act = "SegwitDec" -> V_SegwitDec(e)
    [] e.act = "PathParse" -> V_PathParse(e)
    [] e.act = "ByPath" -> V_ByPath(e)
    [] e.act = "PathProps" -> V_PathProps(e)
    [] e.act = "MerkleLevel" -> V_MerkleLevel(e)
    [] e.act = "MerkleRoot" -> V_MerkleRoot(e)
    [] e.act = "ScriptAdd" -> V_ScriptAdd(e)
    [] e.act = "Bech32DecodeAddress" -> V_Bech32DecodeAddress(e)
    [] OTHER -> "unknown-act"

TraceInit == l = 1
TraceNext ==
  /\ l <= Len(Trace)
  /\ LET v == Verdict(Trace[l])
     IN IF v = "ok" THEN TRUE ELSE PrintT(<<"RJ", Trace[l].id, v>>)
  /\ l' = l + 1
=============================================================================
