------------------------------- MODULE ExtKey -------------------------------
(***************************************************************************)
(* SLIP-132 version table and the 78-byte BIP32 extended-key layout.       *)
(* A node is a record                                                      *)
(*   [prv   : BOOLEAN,                                                     *)
(*    k     : KeyLen bytes (private scalar; only when prv),                *)
(*    K     : compressed SEC of the public key (33 bytes at real scale),   *)
(*    c     : chain code, depth : 0..255, idx : 4 bytes, pfp : 4 bytes,    *)
(*    net   : "main" | "test"]                                             *)
(***************************************************************************)
EXTENDS Bytes

Nets == {"main", "test"}
KeyTypes == {"pub", "prv"}
Bips == {"bip44", "bip49", "bip84"}

\* version constants as 4 big-endian bytes
Ver(t, n, b) ==
  CASE t = "pub" /\ n = "main" /\ b = "bip44" -> <<4, 136, 178, 30>>    \* 0488B21E xpub
    [] t = "pub" /\ n = "main" /\ b = "bip49" -> <<4, 157, 124, 178>>   \* 049D7CB2 ypub
    [] t = "pub" /\ n = "main" /\ b = "bip84" -> <<4, 178, 71, 70>>     \* 04B24746 zpub
    [] t = "prv" /\ n = "main" /\ b = "bip44" -> <<4, 136, 173, 228>>   \* 0488ADE4 xprv
    [] t = "prv" /\ n = "main" /\ b = "bip49" -> <<4, 157, 120, 120>>   \* 049D7878 yprv
    [] t = "prv" /\ n = "main" /\ b = "bip84" -> <<4, 178, 67, 12>>     \* 04B2430C zprv
    [] t = "pub" /\ n = "test" /\ b = "bip44" -> <<4, 53, 135, 207>>    \* 043587CF tpub
    [] t = "pub" /\ n = "test" /\ b = "bip49" -> <<4, 74, 82, 98>>      \* 044A5262 upub
    [] t = "pub" /\ n = "test" /\ b = "bip84" -> <<4, 95, 28, 246>>     \* 045F1CF6 vpub
    [] t = "prv" /\ n = "test" /\ b = "bip44" -> <<4, 53, 131, 148>>    \* 04358394 tprv
    [] t = "prv" /\ n = "test" /\ b = "bip49" -> <<4, 74, 78, 40>>      \* 044A4E28 uprv
    [] t = "prv" /\ n = "test" /\ b = "bip84" -> <<4, 95, 24, 188>>     \* 045F18BC vprv

Triples == KeyTypes \X Nets \X Bips
AllVersions == {Ver(x[1], x[2], x[3]) : x \in Triples}

KnownVersion(v) == v \in AllVersions
\* inverse of the table: <<type, net, bip>>
TripleOf(v) == CHOOSE x \in Triples : Ver(x[1], x[2], x[3]) = v

ASSUME Cardinality(AllVersions) = 12          \* the table is injective

(***************************************************************************)
(* 78-byte payload.                                                        *)
(***************************************************************************)
IsMaster(node) == node.depth = 0 /\ IsZero(node.idx)

\* payload for a given version; keydata = 00||k for private, SEC for public
Payload(version, depth, pfp, idx, c, keydata) ==
  version \o <<depth>> \o pfp \o idx \o c \o keydata

\* a master key is serialised with zero depth, fingerprint and child number
PfpOf(node) == IF IsMaster(node) THEN Zeros(4) ELSE node.pfp

SerPub(node, version) ==
  Payload(version, node.depth, PfpOf(node), node.idx, node.c, node.K)
SerPrv(node, version) ==
  Payload(version, node.depth, PfpOf(node), node.idx, node.c, <<0>> \o node.k)

(***************************************************************************)
(* Reading a payload back.  ParsePayload(p, asPrv, net) mirrors how the    *)
(* library is used: the caller says which kind of node it expects          *)
(* (PrvKeyNode.parse / PubKeyNode.parse) and which network flag to set; a  *)
(* wallet import (ImportKind) takes both from the version prefix alone.    *)
(* -> [ok, version, prv, keydata, c, depth, idx, pfp, net]                 *)
(***************************************************************************)
ParsePayload(p, asPrv, net) ==
  IF Len(p) # 78 THEN [ok |-> FALSE]
  ELSE [ok |-> TRUE, version |-> SubSeq(p, 1, 4), prv |-> asPrv, depth |-> p[5],
        pfp |-> SubSeq(p, 6, 9), idx |-> SubSeq(p, 10, 13), c |-> SubSeq(p, 14, 45),
        keydata |-> SubSeq(p, 46, 78), net |-> net]

\* what a wallet import derives from the version prefix alone
ImportKind(version) ==
  IF ~KnownVersion(version) THEN [ok |-> FALSE]
  ELSE LET t == TripleOf(version)
       IN [ok |-> TRUE, prv |-> (t[1] = "prv"), net |-> t[2], bip |-> t[3]]

\* field view of a 78-byte sequence (no validity judgement)
Fields(p) == [version |-> SubSeq(p, 1, 4), depth |-> p[5], pfp |-> SubSeq(p, 6, 9),
              idx |-> SubSeq(p, 10, 13), c |-> SubSeq(p, 14, 45),
              keydata |-> SubSeq(p, 46, 78)]
=============================================================================
