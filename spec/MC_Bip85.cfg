INIT Init
NEXT Next
INVARIANT InDomainIffAccepted
INVARIANT AllLevelsHardened
INVARIANT SliceWidths
