------------------------------ MODULE MC_Bip39 ------------------------------
(***************************************************************************)
(* Bounded exhaustive model for C04 on a SCALED instance: 5-bit words, one *)
(* checksum bit per 4 entropy bits, entropy sizes 8 and 16 bits.  EVERY    *)
(* entropy value of both sizes is a state; the hash is TLC-chosen (all     *)
(* checksum patterns for 8-bit entropy, a spread for 16-bit).  Byte        *)
(* lengths 0, 3, 4 are the "other sizes".                                  *)
(***************************************************************************)
EXTENDS Bytes, TLC

CONSTANTS HashHeads16          \* leading hash bytes tried for 16-bit entropy

ToySha(cx, x) == <<cx>> \o Zeros(31)         \* only the leading bits matter
ToyNfkd(cx, s) == s
ToyPbkdf2(cx, pw, salt, r, n) == Zeros(64)

B == INSTANCE Bip39 WITH WordBits <- 5, CsRatio <- 4, EntSizes <- {8, 16},
                         Sha <- ToySha, Nfkd <- ToyNfkd, Pbkdf2 <- ToyPbkdf2

VARIABLES ent, h

vars == <<ent, h>>

\* the entropy grows one byte per step (so TLC's workers share the enumeration):
\* lengths 0..MaxLen are all visited, every value of lengths 1 and 2
Init == ent = <<>> /\ h \in HashHeads16

Grow == /\ Len(ent) < 2 \/ (Len(ent) < 4 /\ ent \in {<<1, 2>>, <<1, 2, 3>>, <<255, 255>>, <<255, 255, 255>>, <<0, 0>>, <<0, 0, 0>>})
        /\ \E b \in (IF Len(ent) < 2 THEN Byte ELSE {0, 3, 255}) : ent' = Append(ent, b)
        /\ h' = h

Next == Grow

\* the five invariants, written over one shared evaluation s of Sentence (TLC does not
\* cache state-level definitions; evaluating it once per state is 5x faster)
OtherSizesRejected(s) == (Len(ent) \notin {1, 2}) <=> ~s.ok     \* lengths 0, 3, 4 are refused
WordCount(s) == s.ok => Len(s.idx) = (IF Len(ent) = 1 THEN 2 ELSE 4) /\ \A i \in 1..Len(s.idx) : s.idx[i] \in 0..31
RoundTrip(s, d) == s.ok => d.ent = ent
ChecksumIsPrefixOfHash(s, d) == s.ok => d.cs = Take(ByteBits(h), 2 * Len(ent))
\* no entropy bit is lost: the leading ENT bits of the concatenated words are the entropy
Lossless(s) == s.ok => FromBits(SubSeq(Flatten([i \in 1..Len(s.idx) |-> NatToBits(s.idx[i], 5)]), 1, 8 * Len(ent))) = ent

C04Invariants ==
  LET s == B!Sentence(h, ent)
      d == IF s.ok THEN B!Decode(s.idx) ELSE [ent |-> <<>>, cs |-> <<>>]
  IN /\ OtherSizesRejected(s) /\ WordCount(s) /\ RoundTrip(s, d) /\ ChecksumIsPrefixOfHash(s, d) /\ Lossless(s)
=============================================================================
