#!/bin/sh
# offline setup: verify tools, parse every specification module, byte-compile nothing (no caches kept)
cd "$(dirname "$0")" || exit 1
command -v java >/dev/null || { echo "java missing"; exit 1; }
[ -x /venv/bin/python ] || { echo "/venv/bin/python missing"; exit 1; }
[ -f /opt/veriftools/tla/tla2tools.jar ] || { echo "tla2tools.jar missing"; exit 1; }
chmod +x check
fail=0
for f in spec/*.tla; do
  case "$f" in spec/Apa_*) continue;; esac      # Apalache wrappers: type-checked with Apalache below
  out=$(cd spec && java -cp /opt/veriftools/tla/tla2tools.jar:/opt/veriftools/tla/CommunityModules-deps.jar tla2sany.SANY "$(basename "$f")" 2>&1)
  if echo "$out" | grep -qiE "Fatal errors|\*\*\* Errors|Could not parse|Cannot find"; then echo "SANY failed on $f"; echo "$out" | tail -20; fail=1; fi
done
command -v apalache-mc >/dev/null || { echo "apalache-mc missing"; exit 1; }
d=$(mktemp -d /dev/shm/apa-setup.XXXXXX 2>/dev/null || mktemp -d)
for f in spec/Apa_*.tla; do
  cp spec/*.tla "$d"/
  out=$(cd "$d" && apalache-mc typecheck --out-dir="$d/out" "$(basename "$f")" 2>&1)
  echo "$out" | grep -q "EXITCODE: OK" || { echo "Apalache typecheck failed on $f"; echo "$out" | tail -20; fail=1; }
done
rm -rf "$d"
/venv/bin/python -c "import sys; sys.path.insert(0,'/repo'); import btc_hd_wallet, ecdsa; import harness.refprims" || fail=1
exit $fail
