"""Handling of independently seeded changes (development aid, not a registered check).

  confirm <P> <a|b>   in the scratch worktree /tmp/wt/<P>: patch applies, the 124 tests pass with it, the
                      demonstration fails with it and passes without it; then store it as /verif/seeded/<P>-<x>/
  run [ids...]        apply each stored seed to /repo (git apply), run the property's quick check, undo
"""
import json
import os
import shutil
import subprocess
import sys
import time

VERIF = os.path.dirname(os.path.dirname(os.path.abspath(__file__)))
SEEDED = os.path.join(VERIF, "seeded")
PY = "/venv/bin/python"


def sh(cmd, cwd=None, timeout=3000):
    p = subprocess.run(cmd, shell=True, cwd=cwd, stdout=subprocess.PIPE, stderr=subprocess.STDOUT, timeout=timeout)
    return p.returncode, p.stdout.decode("utf-8", "replace")


def confirm(wtname, x, prop=None, sid=None):
    wt = "/tmp/wt/%s" % wtname
    prop = prop or wtname[:3]
    sid = sid or "%s-%s" % (wtname, x)
    sd = os.path.join(wt, "_seed", x)
    assert sh("git status --porcelain -- btc_hd_wallet", wt)[1].strip() == "", "worktree not clean"
    rc0, out0 = sh("%s _seed/%s/demo.py" % (PY, x), wt)
    rc, out = sh("git apply _seed/%s/patch.diff" % x, wt)
    assert rc == 0, "patch does not apply: " + out
    try:
        rct, outt = sh("%s -m pytest -q -p no:cacheprovider --deselect tests/test_parser.py::TestArgumentParsing::test_invalid_file_argument 2>&1 | tail -1" % PY, wt)
        rc1, out1 = sh("%s _seed/%s/demo.py" % (PY, x), wt)
    finally:
        sh("git checkout -- btc_hd_wallet", wt)
    ok = rc0 == 0 and rc1 != 0 and "124 passed" in outt
    print(json.dumps({"seed": sid, "demo_without": rc0, "tests_with": outt.strip()[-60:], "demo_with": rc1, "confirmed": ok}))
    if ok:
        dst = os.path.join(SEEDED, sid)
        os.makedirs(dst, exist_ok=True)
        for f in ("patch.diff", "demo.py", "notes.txt"):
            shutil.copy(os.path.join(sd, f), os.path.join(dst, f))
        meta = {"property": prop, "needs": open(os.path.join(sd, "notes.txt")).read().strip(),
                "confirmed": {"tests_with_patch": outt.strip(), "demo_with_patch_exit": rc1, "demo_without_patch_exit": rc0,
                              "how": "git apply in scratch worktree /tmp/wt/%s; pytest (124 pass); demo.py; git checkout" % wtname},
                "checks": {}}
        mp = os.path.join(dst, "meta.json")
        if os.path.exists(mp):
            meta["checks"] = json.load(open(mp)).get("checks", {})
        json.dump(meta, open(mp, "w"), indent=1)
    return ok


REPO = os.environ.get("SEED_REPO", "/dev/shm/seedrepo")      # scratch clone; /repo itself is not edited


def run(ids):
    if not os.path.isdir(REPO):
        sh("git clone -q /repo %s" % REPO)
    sh("git -C %s fetch -q origin && git -C %s reset -q --hard origin/main" % (REPO, REPO))
    assert sh("git -C %s status --porcelain" % REPO)[1].strip() == "", "scratch repo not clean"
    for d in sorted(os.listdir(SEEDED)):
        if ids and d not in ids and d.split("-")[0] not in ids:
            continue
        mp = os.path.join(SEEDED, d, "meta.json")
        meta = json.load(open(mp))
        prop = meta["property"]
        try:
            rc, out = sh("git -C %s apply %s" % (REPO, os.path.join(SEEDED, d, "patch.diff")))
            if rc != 0:
                print(d, "patch does not apply", out)
                continue
            t0 = time.time()
            rc, out = sh("VERIF_REPO=%s ./check %s --tier quick" % (REPO, prop), VERIF)
            first = [l for l in out.splitlines() if l.startswith(("VIOLATION", "MACHINERY"))][:1]
            meta["checks"][prop + "-quick"] = {"exit": rc, "seconds": round(time.time() - t0), "first_line": first[0][:300] if first else ""}
            print(json.dumps({"seed": d, "exit": rc, "s": round(time.time() - t0), "first": (first[0][:200] if first else "")}))
        finally:
            sh("git -C %s checkout -- ." % REPO)
        json.dump(meta, open(mp, "w"), indent=1)


if __name__ == "__main__":
    if sys.argv[1] == "confirm":
        confirm(sys.argv[2], sys.argv[3], *(sys.argv[4:6]))
    else:
        run(sys.argv[2:])
