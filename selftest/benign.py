"""Property-preserving changes (development aid, not a registered check): every quick check must stay silent on them.

  store <worktree> <i> <id>   copy /tmp/wt/<worktree>/_benign/<i>/{patch.diff,check.py,notes.txt} to /verif/benign/<id>/
                              after confirming that the patch applies, the pinned tests pass with it (except those listed in
                              notes as expected) and its own differential check passes
  run [ids...] [--props C01,C02]   apply each stored patch to a scratch clone, run the quick checks, expect exit 0
"""
import json
import os
import shutil
import subprocess
import sys
import time

VERIF = os.path.dirname(os.path.dirname(os.path.abspath(__file__)))
BENIGN = os.path.join(VERIF, "benign")
PY = "/venv/bin/python"
REPO = os.environ.get("BENIGN_REPO", "/dev/shm/benignrepo")
ALL = ["C%02d" % i for i in range(1, 21)]


def sh(cmd, cwd=None, timeout=6000):
    p = subprocess.run(cmd, shell=True, cwd=cwd, stdout=subprocess.PIPE, stderr=subprocess.STDOUT, timeout=timeout)
    return p.returncode, p.stdout.decode("utf-8", "replace")


def store(wtname, i, bid):
    wt = "/tmp/wt/%s" % wtname
    sd = os.path.join(wt, "_benign", i)
    assert sh("git status --porcelain -- btc_hd_wallet", wt)[1].strip() == "", "worktree not clean"
    rc, out = sh("git apply _benign/%s/patch.diff" % i, wt)
    assert rc == 0, out
    try:
        rct, outt = sh("%s -m pytest -q -p no:cacheprovider --deselect tests/test_parser.py::TestArgumentParsing::test_invalid_file_argument 2>&1 | tail -3" % PY, wt)
        rcc, outc = sh("%s _benign/%s/check.py" % (PY, i), wt)
    finally:
        sh("git checkout -- btc_hd_wallet", wt)
    rec = {"id": bid, "tests": outt.strip().splitlines()[-1] if outt.strip() else "", "own_check_exit": rcc}
    print(json.dumps(rec))
    dst = os.path.join(BENIGN, bid)
    os.makedirs(dst, exist_ok=True)
    for f in ("patch.diff", "check.py", "notes.txt"):
        if os.path.exists(os.path.join(sd, f)):
            shutil.copy(os.path.join(sd, f), os.path.join(dst, f))
    json.dump({"stored": rec, "checks": {}}, open(os.path.join(dst, "meta.json"), "w"), indent=1)


def run(ids, props):
    if not os.path.isdir(REPO):
        sh("git clone -q /repo %s" % REPO)
    sh("git -C %s fetch -q origin && git -C %s reset -q --hard origin/main" % (REPO, REPO))
    for d in sorted(os.listdir(BENIGN)):
        if ids and d not in ids:
            continue
        mp = os.path.join(BENIGN, d, "meta.json")
        meta = json.load(open(mp))
        try:
            rc, out = sh("git -C %s apply %s" % (REPO, os.path.join(BENIGN, d, "patch.diff")))
            if rc != 0:
                print(d, "patch does not apply", out)
                continue
            for p in props:
                t0 = time.time()
                rc, out = sh("VERIF_REPO=%s ./check %s --tier quick" % (REPO, p), VERIF)
                lines = [l for l in out.splitlines() if l.startswith(("VIOLATION", "MACHINERY", "KNOWN-FINDING"))]
                meta["checks"][p] = {"exit": rc, "seconds": round(time.time() - t0), "lines": [l[:400] for l in lines[:3]]}
                print(json.dumps({"benign": d, "prop": p, "exit": rc, "s": round(time.time() - t0), "first": (lines[0][:260] if lines else "")}), flush=True)
        finally:
            sh("git -C %s checkout -- ." % REPO)
            json.dump(meta, open(mp, "w"), indent=1)


if __name__ == "__main__":
    a = sys.argv[1:]
    if a and a[0] == "store":
        store(a[1], a[2], a[3])
    else:
        props = ALL
        rest = []
        for x in a[1:] if a and a[0] == "run" else a:
            if x.startswith("--props"):
                props = x.split("=", 1)[1].split(",")
            else:
                rest.append(x)
        run(rest, props)
