"""Development self-test (NOT a registered check): apply a catalogue of source
mutants to /repo's working tree one at a time, run the property's quick check,
expect exit 1, and restore the tree.  Usage:
    python selftest/mutants.py [--tests] [--only ID_OR_PROP ...]"""
import json
import os
import subprocess
import sys
import time

HERE = os.path.dirname(os.path.abspath(__file__))
VERIF = os.path.dirname(HERE)
REPO = "/repo"

# (id, properties, file, old, new)
CATALOG = json.load(open(os.path.join(HERE, "catalog.json")))


def sh(cmd, **kw):
    return subprocess.run(cmd, shell=True, stdout=subprocess.PIPE, stderr=subprocess.STDOUT, **kw)


def main():
    args = sys.argv[1:]
    run_tests = "--tests" in args
    only = [a for a in args if not a.startswith("--")]
    assert sh("git -C /repo status --porcelain").stdout.strip() == b"", "repo tree not clean"
    results = []
    for m in CATALOG:
        if only and m["id"] not in only and not (set(m["props"]) & set(only)):
            continue
        path = os.path.join(REPO, m["file"])
        src = open(path).read()
        if src.count(m["old"]) != 1:
            print("SKIP %s: pattern occurs %d times" % (m["id"], src.count(m["old"])))
            continue
        try:
            open(path, "w").write(src.replace(m["old"], m["new"]))
            row = {"id": m["id"]}
            if run_tests:
                r = sh("cd /repo && /venv/bin/python -m pytest -q -p no:cacheprovider -x --deselect "
                       "tests/test_parser.py::TestArgumentParsing::test_invalid_file_argument 2>&1 | tail -1")
                row["tests"] = r.stdout.decode().strip()
            for p in m["props"]:
                t0 = time.time()
                r = sh("cd %s && ./check %s --tier quick" % (VERIF, p))
                lines = [l for l in r.stdout.decode().splitlines() if l.startswith(("VIOLATION", "MACHINERY"))]
                row[p] = {"rc": r.returncode, "s": round(time.time() - t0), "first": lines[0][:230] if lines else ""}
            print(json.dumps(row))
            results.append(row)
        finally:
            sh("git -C /repo checkout -- .")
    missed = [r["id"] for r in results if not any(isinstance(v, dict) and v["rc"] == 1 for v in r.values())]
    print("MISSED:", missed)


if __name__ == "__main__":
    main()
