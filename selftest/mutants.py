"""Development self-test (NOT a registered check): apply a catalogue of source
mutants to /repo's working tree one at a time, run the property's quick check,
expect exit 1, and restore the tree.  Usage:
    python selftest/mutants.py [--tests] [--only ID_OR_PROP ...]"""
import json
import os
import subprocess
import sys
import time

HERE = os.path.dirname(os.path.abspath(__file__))
VERIF = os.path.dirname(HERE)
REPO = os.environ.get("MUT_REPO", "/dev/shm/mutrepo")      # a scratch clone; /repo itself is never edited

# (id, properties, file, old, new)
CATALOG = json.load(open(os.path.join(HERE, "catalog.json")))


def sh(cmd, **kw):
    return subprocess.run(cmd, shell=True, stdout=subprocess.PIPE, stderr=subprocess.STDOUT, **kw)


def main():
    args = sys.argv[1:]
    run_tests = "--tests" in args
    only = [a for a in args if not a.startswith("--")]
    if not os.path.isdir(REPO):
        sh("git clone -q /repo %s" % REPO)
    sh("git -C %s fetch -q origin && git -C %s reset -q --hard origin/main" % (REPO, REPO))
    assert sh("git -C %s status --porcelain" % REPO).stdout.strip() == b"", "scratch repo not clean"
    results = []
    for m in CATALOG:
        if only and m["id"] not in only and not (set(m["props"]) & set(only)):
            continue
        path = os.path.join(REPO, m["file"])
        src = open(path).read()
        if src.count(m["old"]) != 1:
            print("SKIP %s: pattern occurs %d times" % (m["id"], src.count(m["old"])))
            continue
        try:
            new_src = src.replace(m["old"], m["new"])
            if "old2" in m:
                assert new_src.count(m["old2"]) == 1
                new_src = new_src.replace(m["old2"], m["new2"])
            open(path, "w").write(new_src)
            row = {"id": m["id"]}
            if run_tests:
                r = sh("cd " + REPO + " && /venv/bin/python -m pytest -q -p no:cacheprovider -x --deselect "
                       "tests/test_parser.py::TestArgumentParsing::test_invalid_file_argument 2>&1 | tail -1")
                row["tests"] = r.stdout.decode().strip()
            for p in m["props"]:
                t0 = time.time()
                r = sh("cd %s && VERIF_REPO=%s ./check %s --tier quick" % (VERIF, REPO, p))
                lines = [l for l in r.stdout.decode().splitlines() if l.startswith(("VIOLATION", "MACHINERY"))]
                row[p] = {"rc": r.returncode, "s": round(time.time() - t0), "first": lines[0][:230] if lines else ""}
            print(json.dumps(row), flush=True)
            results.append(row)
            rp = os.path.join(HERE, "results.json")
            allr = json.load(open(rp)) if os.path.exists(rp) else {}
            allr[m["id"]] = {k: (v if not isinstance(v, dict) else {"exit": v["rc"], "first": v["first"][:160]}) for k, v in row.items() if k != "id"}
            json.dump(allr, open(rp, "w"), indent=1, sort_keys=True)
        finally:
            sh("git -C %s checkout -- ." % REPO)
    missed = [r["id"] for r in results if not any(isinstance(v, dict) and v["rc"] == 1 for v in r.values())]
    print("MISSED:", missed)


if __name__ == "__main__":
    main()
